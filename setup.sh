#!/bin/bash
# Builds the framework from files on disk only (offline).
set -e
cd "$(dirname "$0")"
export GOFLAGS=-mod=mod GOPROXY=off GOSUMDB=off GOTOOLCHAIN=local
mkdir -p bin evidence
(cd engine && go build -o ../bin/gocosym .)
(cd engine && go test -count=1 -run TestDecodeRune . >/dev/null) || { echo "engine decoder self-test failed"; exit 1; }
echo "setup ok"
