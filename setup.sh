#!/bin/bash
# Builds the framework from files on disk only (offline).
set -e
cd "$(dirname "$0")"
export GOFLAGS=-mod=mod GOPROXY=off GOSUMDB=off GOTOOLCHAIN=local
mkdir -p bin evidence
(cd engine && go build -o ../bin/gocosym .)
echo "setup ok"
