#!/bin/bash
# tools/seedtest.sh <worktree> <patch> <demo-run.sh|-> <check> [<check>...]
# Applies a seeded change in a scratch worktree (never /repo), confirms baseline + demo, runs checks
# against it through VERIF_REPO, reverts.
export GOFLAGS=-mod=mod GOPROXY=off GOSUMDB=off GOTOOLCHAIN=local
wt=$1; patch=$2; demo=$3; shift 3
cd $wt || exit 2
git checkout -q -- . 2>/dev/null
if [ "$demo" != "-" ]; then bash $demo $wt >/tmp/seed_demo_clean.log 2>&1; echo "demo without change: rc=$?"; fi
git apply $patch || { echo "patch does not apply"; exit 2; }
go build ./... || { echo "BUILD FAILS"; }
go test -vet=off -count=1 ./seq ./rewriter ./example ./example/lexer ./example/linq ./example/sched1 ./example/sched2 ./example/tree 2>&1 | grep -v "^ok" | head -5
echo "baseline done (lines above = failures, none expected)"
git status --short | grep -v _seed | grep -v "rewriter/test/out" | head
if [ "$demo" != "-" ]; then bash $demo $wt >/tmp/seed_demo_mut.log 2>&1; echo "demo with change: rc=$?"; fi
for c in "$@"; do
  out=$(cd /verif && VERIF_REPO=$wt ./check $c 2>&1); rc=$?
  echo "CHECK $c rc=$rc: $(echo "$out" | grep -v '^KNOWN' | head -3 | cut -c1-160 | tr '\n' '|')"
done
git checkout -q -- . ; git clean -fdq rewriter/test 2>/dev/null
