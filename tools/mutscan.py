#!/usr/bin/env python3
"""tools/mutscan.py gen|run|report ...

A mutation scan of go-co against the checks of /verif (measurement tool, not a registered check):

  gen  <out.jsonl> [--sample N] [--seed S]   enumerate single-token / single-line mutants of the
                                             rewriter and runtime sources of /repo
  run  <mutants.jsonl> <results.jsonl> [-j N] for each mutant: scratch copy of /repo (never /repo),
                                             go build, the 8-package baseline suite; survivors
                                             of the suite are run against the quick checks (cheapest
                                             first, stop at the first VIOLATION)
  report <results.jsonl>                      table of outcomes

A mutant is interesting when it builds, passes the unedited suite and is not reported by any
check ("missed"): either it is equivalent, or a corpus is missing a shape."""
import json, os, random, re, shutil, subprocess, sys, tempfile, time
from concurrent.futures import ThreadPoolExecutor

REPO = "/repo"
FILES = ["seq/seq.go", "seq/iter.go", "rewriter/yield_rewrite.go", "rewriter/range.go", "rewriter/rewrite.go", "rewriter/optimize.go",
         "rewriter/yield_block.go", "rewriter/yieldfrom_rewrite.go", "rewriter/return.go", "rewriter/etc.go", "rewriter/yield_ast.go"]
BASELINE = "go test -vet=off -count=1 ./seq ./rewriter ./example ./example/lexer ./example/linq ./example/sched1 ./example/sched2 ./example/tree"
ENV = dict(os.environ, GOFLAGS="-mod=mod", GOPROXY="off", GOSUMDB="off", GOTOOLCHAIN="local")

# (regex, replacement) token operators; applied to one occurrence at a time
OPS = [
    (r"==", "!="), (r"!=", "=="), (r"<=", "<"), (r">=", ">"), (r"(?<![<\-=!>])<(?![<\-=])", "<="), (r"(?<![>\-=!<])>(?![>=])", ">="),
    (r"&&", "||"), (r"\|\|", "&&"), (r"\btrue\b", "false"), (r"\bfalse\b", "true"),
    (r"\+ 1\b", "- 1"), (r"- 1\b", "+ 1"), (r"\+\+", "--"), (r"\b0\b", "1"), (r"\b1\b", "0"),
    (r"!(?=[a-zA-Z(])", ""), (r"\bkBreak\b", "kContinue"), (r"\bkContinue\b", "kBreak"), (r"\bkNormal\b", "kBreak"), (r"\bkReturn\b", "kNormal"),
    (r"\bnil\b(?= *\{)", "nil"),  # no-op guard (kept out by the equality test below)
    (r"\bCallBreak\b", "CallContinue"), (r"\bCallContinue\b", "CallBreak"), (r"\bCallNormal\b", "CallBreak"),
    (r"\btoken\.DEFINE\b", "token.ASSIGN"), (r"\btoken\.ASSIGN\b", "token.DEFINE"), (r"\btoken\.BREAK\b", "token.CONTINUE"),
    (r"\.Key\b", ".Val"), (r"\.Val\b", ".Key"), (r"len\(([a-z.]+)\) - 1", r"len(\1)"),
]


def code_lines(path):
    """(lineno, text) of lines that are code (not comments / imports / blank)"""
    out = []
    inblock = False
    for i, l in enumerate(open(path).read().split("\n")):
        st = l.strip()
        if inblock:
            if "*/" in st:
                inblock = False
            continue
        if st.startswith("/*"):
            inblock = "*/" not in st
            continue
        if not st or st.startswith("//") or st.startswith("import") or st.startswith("package") or st.startswith('"'):
            continue
        out.append((i, l))
    return out


def gen(out, sample=None, seed=1):
    muts = []
    for f in FILES:
        p = os.path.join(REPO, f)
        for ln, text in code_lines(p):
            code = text.split("//")[0] if '"' not in text else text  # keep strings intact; drop trailing comments otherwise
            # skip log / assert message lines
            if "log.Printf" in text or "panic(" in text and '"' in text:
                continue
            for rx, rep in OPS:
                for m in re.finditer(rx, code):
                    # not inside a string literal
                    if code[:m.start()].count('"') % 2 == 1:
                        continue
                    new = code[:m.start()] + m.expand(rep) + code[m.end():] + text[len(code):]
                    if new != text:
                        muts.append({"file": f, "line": ln, "old": text, "new": new, "op": "%s=>%s" % (rx, rep)})
            # statement deletion: simple one-line statements (assignments / calls), not declarations
            st = text.strip()
            if re.match(r"^[a-zA-Z_.\[\]\*\(\)]+ (=|\+=|-=) .*[^{,(]$", st) or re.match(r"^[a-zA-Z_.]+\([^{}]*\)$", st):
                muts.append({"file": f, "line": ln, "old": text, "new": re.match(r"^\s*", text).group(0) + "// deleted", "op": "delete-stmt"})
    # dedupe
    seen, uniq = set(), []
    for m in muts:
        k = (m["file"], m["line"], m["new"])
        if k not in seen:
            seen.add(k)
            uniq.append(m)
    rng = random.Random(seed)
    rng.shuffle(uniq)
    if sample:
        uniq = uniq[:sample]
    with open(out, "w") as fo:
        for i, m in enumerate(uniq):
            m["id"] = i
            fo.write(json.dumps(m) + "\n")
    print("mutants:", len(uniq))


SEQ_CHECKS = ["C09", "C10", "C17", "C08", "C18", "C14", "C04", "C01"]
RW_CHECKS = ["C13", "C03", "C05", "C18", "C01", "C02", "C06", "C07", "C04", "C12", "C14"]


def run_one(m, keep_going=False):
    d = tempfile.mkdtemp(prefix="mutscan_", dir="/var/tmp")
    repo = os.path.join(d, "repo")
    res = dict(m)
    try:
        shutil.copytree(REPO, repo, ignore=shutil.ignore_patterns(".git"))
        p = os.path.join(repo, m["file"])
        lines = open(p).read().split("\n")
        ln = m["line"]
        if ln >= len(lines) or lines[ln] != m["old"]:
            # /repo moved on since the mutants were generated: take the nearest identical line
            cands = [i for i, l in enumerate(lines) if l == m["old"]]
            if not cands:
                res["outcome"] = "stale"
                return res
            ln = min(cands, key=lambda i: abs(i - m["line"]))
        lines[ln] = m["new"]
        open(p, "w").write("\n".join(lines))
        r = subprocess.run("go build ./...", shell=True, cwd=repo, env=ENV, stdout=subprocess.PIPE, stderr=subprocess.STDOUT, text=True)
        if r.returncode != 0:
            res["outcome"] = "no-build"
            return res
        try:
            r = subprocess.run(BASELINE, shell=True, cwd=repo, env=ENV, stdout=subprocess.PIPE, stderr=subprocess.STDOUT, text=True, timeout=300)
        except subprocess.TimeoutExpired:
            res["outcome"] = "suite-timeout"
            return res
        if r.returncode != 0:
            res["outcome"] = "killed-by-suite"
            return res
        checks = SEQ_CHECKS if m["file"].startswith("seq/") else RW_CHECKS
        env = dict(ENV, VERIF_REPO=repo, VERIF_EVIDENCE_DIR=os.path.join(d, "evidence"))
        os.makedirs(os.path.join(d, "evidence"), exist_ok=True)
        res["checks"] = {}
        res["outcome"] = "missed"
        for c in checks:
            t0 = time.time()
            try:
                r = subprocess.run(["/verif/check", c, "quick"], env=env, cwd="/verif", stdout=subprocess.PIPE, stderr=subprocess.STDOUT, text=True, timeout=1500)
                rc = r.returncode
                out = r.stdout
            except subprocess.TimeoutExpired:
                rc, out = 98, "timeout"
            viol = "VIOLATION" in out
            res["checks"][c] = {"rc": rc, "s": round(time.time() - t0), "tail": [l[:200] for l in out.strip().splitlines() if l.startswith(("ERROR", "VIOLATION", "SUMMARY"))][:3]}
            if rc == 1 and viol:
                res["outcome"] = "caught"
                res["caught_by"] = c
                if not keep_going:
                    break
            elif rc not in (0, 1) and res["outcome"] == "missed":
                res["outcome"] = "loud"  # exit 2: the check could not run / coverage collapsed - not silent, not a VIOLATION
                res.setdefault("loud_by", c)
        return res
    finally:
        shutil.rmtree(d, ignore_errors=True)


def run(mfile, rfile, jobs=4):
    muts = [json.loads(l) for l in open(mfile)]
    done = set()
    if os.path.exists(rfile):
        for l in open(rfile):
            done.add(json.loads(l)["id"])
    todo = [m for m in muts if m["id"] not in done]
    print("todo", len(todo))
    from concurrent.futures import as_completed
    with ThreadPoolExecutor(max_workers=jobs) as ex, open(rfile, "a") as fo:
        futs = [ex.submit(run_one, m) for m in todo]
        for fu in as_completed(futs):
            res = fu.result()
            fo.write(json.dumps(res) + "\n")
            fo.flush()
            print(res["id"], res["file"], res["line"] + 1, res["op"], "->", res["outcome"], res.get("caught_by") or res.get("loud_by") or "", flush=True)


def report(rfile):
    rs = [json.loads(l) for l in open(rfile)]
    by = {}
    for r in rs:
        by.setdefault(r["outcome"], []).append(r)
    print({k: len(v) for k, v in by.items()})
    cb = {}
    for r in by.get("caught", []):
        cb[r["caught_by"]] = cb.get(r["caught_by"], 0) + 1
    print("caught by (first check that reports):", cb)
    for k in ("missed", "loud"):
        for r in by.get(k, []):
            print(k.upper(), r["id"], "%s:%d" % (r["file"], r["line"] + 1), r["op"], "|", r["old"].strip()[:90], "=>", r["new"].strip()[:90], r.get("loud_by", ""))


if __name__ == "__main__":
    a = sys.argv[1:]
    if a[0] == "gen":
        sample = int(a[a.index("--sample") + 1]) if "--sample" in a else None
        seed = int(a[a.index("--seed") + 1]) if "--seed" in a else 1
        gen(a[1], sample, seed)
    elif a[0] == "run":
        jobs = int(a[a.index("-j") + 1]) if "-j" in a else 4
        run(a[1], a[2], jobs)
    elif a[0] == "report":
        report(a[1])
