#!/usr/bin/env python3
"""tools/mkseedprompt.py <property-id> <round> : writes /tmp/agentprompts/<ID>_r<round>.txt - the complete
task text for a fresh seeding sub-agent (property text + its worktree + the list of earlier changes to avoid).
Nothing from /verif is shown to the agent except the one-line descriptions of earlier seeded changes."""
import json, os, sys, glob
pid, rnd = sys.argv[1], int(sys.argv[2])
V = os.path.dirname(os.path.dirname(os.path.abspath(__file__)))
prop = [json.loads(l) for l in open(os.path.join(V, "properties.jsonl")) if l.strip()]
p = [x for x in prop if x["id"] == pid][0]
wt = "/tmp/wt%d_%s" % (rnd, pid)
earlier = []
for d in sorted(glob.glob(os.path.join(V, "seeded", "*"))):
    m = json.load(open(os.path.join(d, "meta.json")))
    earlier.append("  - (%s) %s" % (os.path.basename(d), (m.get("change") or m.get("what") or "")[:260]))
T = open(os.path.join(V, "tools", "seedprompt.tmpl")).read()
out = T.replace("@WT@", wt).replace("@ID@", pid).replace("@TITLE@", p["title"]).replace("@STATEMENT@", p["statement"]) \
    .replace("@QUANT@", p["quantifier"]["text"]).replace("@WHY@", p["why_tests_cant"]).replace("@ANCHORS@", json.dumps(p["anchors"])) \
    .replace("@N@", str(len(earlier))).replace("@EARLIER@", "\n".join(earlier))
os.makedirs("/tmp/agentprompts", exist_ok=True)
fn = "/tmp/agentprompts/%s_r%d.txt" % (pid, rnd)
open(fn, "w").write(out)
print(fn)
