#!/usr/bin/env python3
"""Regenerates /verif/MANIFEST.json from the table below (run after a property comes online)."""
import json, os, subprocess

VERIF = os.path.dirname(os.path.dirname(os.path.abspath(__file__)))

TV = "translation_validation"
MC = "model_checking"

TRUST = ("Trusted: go/packages+go/types+go/ssa (x/tools v0.29.0) lowering, the gocosym instruction semantics and intrinsics listed in the "
         "evidence file's assumptions, z3 4.8.12. Every solver model is replayed natively against the real build before it is reported; "
         "unknown/timeouts/unsupported instructions make a driver undecided, never a pass.")

CHECKS = {
    "C08": (MC, "bounded symbolic execution (SSA->SMT, z3) of the real seq combinators against a reference interpreter",
            "Every combinator term up to the stated node/depth bound (shapes forked by the executor) with symbolic yielded/sent/returned values and "
            "symbolic loop-condition outcomes is executed from the SSA of /repo/seq; per path one SMT query decides equality of the event log "
            "(yields, thunk/cond/post evaluations, results) with a direct-style reference interpreter. Bounded: nothing is claimed for larger terms.", "§6 C08"),
    "C09": (MC, "bounded symbolic execution (SSA->SMT, z3) of seq.generator over all call histories vs a protocol automaton",
            "All histories of H operations over {MoveNext, Current, Send(x), Result} on a family of generators (0..n yields, with/without return value, "
            "echoing received values) are enumerated by path forking; values are symbolic; per history the solver decides equality of all return values "
            "and generator-side effects with a 40-line specification automaton. Bounded by H and n.", "§6 C09"),
    "C10": (MC, "bounded symbolic execution (SSA->SMT, z3) of seq/iter.go against native range in the same harness",
            "For every byte string up to the length bound (bytes fully symbolic), long strings with a 4-byte fully symbolic window in front of every power-of-two offset up to the bound, every n <= bound, small slices/maps/channels with mutation scripts, "
            "the pairs produced by seq.New*Iter are compared by the solver with those of the native range statement lowered by go/ssa. Bounded sizes.", "§6 C10"),
    "C17": (MC, "bounded symbolic execution (SSA->SMT, z3) with interpreter call depth as observable",
            "Loops whose body completes n times without yielding (n symbolic up to the bound, Normal/Continue per iteration) are executed from the SSA of "
            "seq.For/While/Loop and of compiled filter loops; the harness asserts that the depth sampled at iteration j equals the depth at iteration 1. "
            "The claim holds up to the bound on n; independence of n beyond it is argued, not proved.", "§6 C17"),
}

CHECKS["C01"] = (TV, "translation validation: symbolic execution (SSA->SMT, z3) of source-under-coroutine-semantics vs compiled code + real seq, per generated program",
    "For every program of a generated corpus (bounded-exhaustive small bodies, seeded larger samples, directed shapes) the real compiler is run from /repo and "
    "both the source (reference coroutine semantics inside the engine) and the compiled output linked with the real seq runtime are executed symbolically "
    "on the same path; one SMT query per path decides that the yielded sequences and end-of-iteration agree for ALL argument values within the bounds "
    "(64-bit ints, loop bound n in [-1,3], K advances). The program dimension is sampled, not symbolic.", "§6 C01")

CHECKS["C02"] = (TV, "translation validation: symbolic execution (SSA->SMT, z3) with advance markers and evaluation-point effects in the event log",
    "Same two-world execution as C01 on an effect-instrumented corpus: the log contains a CREATED marker, ADV_BEGIN/ADV_END around every advance, "
    "rt.Eff(id, e) around yielded expressions / conditions / initialisers and effect statements around yields; the solver decides flat log equality for all "
    "inputs, which (deterministic engine, markers in the log) implies equality at every truncation point k <= K and for 2 advances after exhaustion. Program dimension sampled.", "§6 C02")

CHECKS["C18"] = (TV, "translation validation: symbolic execution (SSA->SMT, z3) of programs with one injected panic site, advances wrapped in recover",
    "C01-style corpus with one panic site (explicit panic with symbolic value, division by a symbolic zero, symbolic index out of range, nil map store, nil dereference, "
    "panic inside a delegate) at a random statement position; the driver wraps every advance in defer/recover and logs which advance panicked with which value; "
    "the solver decides log equality between source-under-coroutine-semantics (panic unwinds into the resumer) and compiled code + real seq for all inputs within the bounds.", "§6 C18")

CHECKS["C05"] = (TV, "translation validation: symbolic execution (SSA->SMT, z3) of delegating generators, plus solver-decided equality of the compiled YieldFrom form and range form",
    "Corpus of delegating generators (YieldFrom at statement positions, in loops/switch cases, in for-init/for-post, delegates advanced by hand, empty / infinite / nested / "
    "recursive delegates with symbolic depth, argument wrapped in an effect). Pass 1: source-under-coroutine-semantics vs compiled code with advance markers and delegate-side "
    "effects in the log. Pass 2: inside the generated package the compiled YieldFrom form and the compiled 'for v := range it { Yield(v) }' form of the same body are run on the "
    "same symbolic arguments and their logs asserted equal. Program dimension sampled; K advances; recursion depth <= 3 (quick).", "§6 C05")

CHECKS["C03"] = (TV, "translation validation: symbolic execution (SSA->SMT, z3) on a declaration/shadowing/closure-biased corpus with one distinct symbolic term per declaration",
    "Corpus biased to declarations: x,y declared, shadowed and updated at function level, in blocks, if/else arms, for/switch/type-switch initialisers, range variables and case "
    "clauses, with reader/writer closures created before yields and called after. Every declaration is initialised from a distinct symbolic term, so a reference bound to the "
    "wrong variable changes the yielded term and the solver returns a distinguishing input. Two-world log equality as in C01. Loop-variable identity (closures escaping an "
    "iteration) is decided in two workspaces, go 1.20 and go 1.22 sources; known findings F7/F8 are reported there. Program dimension sampled.", "§6 C03")

CHECKS["C04"] = (TV, "translation validation: symbolic execution (SSA->SMT, z3) of range loops inside generators against go/ssa's lowering of the native range statement",
    "Directed-combinatorial corpus: {string with fully symbolic bytes, slice (3 / empty / nil), array by value, map, nil map, buffered closed channel} x {k,v := / k := / _,v := / "
    "no variables / k,v = outer variables} x {yielding, non-yielding, continue, break, mutation of the collection before/after the yield, nested range, range inside a "
    "non-generator closure}. Reference = the source's native range as lowered by go/ssa under coroutine semantics; implementation = generated loop over seq.New*Iter; the solver "
    "decides log equality for all element values / bytes. Integer range runs in a second workspace with go 1.22 sources; sizes <= 3.", "§6 C04")

CHECKS["C06"] = (TV, "translation validation: symbolic execution (SSA->SMT, z3) of consumer functions over generators, generator-side effects make over-pulling visible",
    "Corpus of consumer functions: range over an iterator with break/continue/return at guard-controlled points, := and = forms, nested ranges, pull code and range code on the "
    "same iterator, iterators stored in struct fields / map values / slices / closures / passed as parameters, generic helpers, method and generic generators. Generators emit an "
    "effect before every yield. The solver decides equality of (generator effects + consumer effects + result) between source-under-coroutine-semantics and generated code for all "
    "inputs in bounds. The 'every occurrence of the type is replaced' clause is a front-end refutation (generated package fails to type-check), reported as unbuildable.", "§6 C06")

CHECKS["C07"] = (TV, "translation validation: symbolic execution (SSA->SMT, z3) of the unoptimised stage output vs the optimised output, both linked with the real seq",
    "The verif hook exposes stage 1 (rewrite only); rewriter.Compile gives the optimised output. Both are generated Go and are executed symbolically on the same path over the "
    "C01/C02/C05 corpora plus a family of user closures of eta shape (function variables, method values on reassigned receivers, nil-able receivers, pull loops reassigning "
    "their iterator, builtins, conversions, generic callees). The solver decides flat log equality (values, advance markers, rt.Eff evaluation events) for all inputs in bounds. "
    "Import clean-up / build clause: optimised output that fails go/types while the unoptimised output passes is reported as a front-end refutation (not a solver verdict).", "§6 C07")

CHECKS["C13"] = (TV, "translation validation: symbolic execution (SSA->SMT, z3) of bystander declarations in the source package vs the generated package",
    "Files that contain a generator (so they are processed) and bystander declarations - plain functions, value/pointer methods, generic functions, constants, package-level "
    "variables with initialisers, closures of every eta shape named in the property with later mutation of callee/receiver, capture by reference, defer/recover, native range - are "
    "compiled; drivers call the bystanders with symbolic arguments in both packages and the solver decides equality of the results for all 64-bit inputs. A generated file that "
    "does not type-check (the source does) is a front-end refutation. A second run uses go 1.22 sources (per-iteration loop variables in plain functions and in ordinary closures "
    "nested in generators). Shapes are hand-listed, not enumerated.", "§6 C13")

CHECKS["C12"] = (TV, "compiler run concretely (reject / unbuildable are allowed outcomes), then translation validation by symbolic execution (SSA->SMT, z3) of accepted programs",
    "Supported host programs with one unsupported construct injected at a random statement position (goto, labels, labelled break/continue, select, defer, fallthrough, range over "
    "pointer-to-array / type parameter, yield in if/switch initialisers, go Yield, wrong result signatures) plus negative controls inside nested non-generator closures. The real "
    "compiler decides first; only programs it accepts AND whose output type-checks reach the solver, which decides source-vs-generated log equality for all inputs (goto, labels, "
    "fallthrough and defer are executed natively from the source SSA). A violation is exactly 'builds and behaves differently'. select / go are not executable by the engine: undecided.", "§6 C12")

CHECKS["C14"] = (MC, "bounded symbolic execution (SSA->SMT, z3) of compiled generators under all interleavings of k iterators, plus heap-footprint disjointness",
    "For compiled corpus generators (loops, locals, closures, delegation incl. a recursive delegator) a driver drains k iterators alone and then advances fresh instances under every "
    "interleaving that gives each exactly m steps (forked by the executor; k=2,m=3 quick, k=3,m=2 thorough); arguments are symbolic and the solver decides that each iterator's "
    "log (yields + generator-side effects) equals its solo log. The goroutine clause is NOT decided as stated: goroutines are not modelled; instead the engine tags every heap "
    "access with the iterator being advanced and asserts that no cell written under one is touched under another (footprint non-interference).", "§6 C14")

NA = {
    "C11": "compiler acceptance/buildability is decided by the compiler pipeline itself (go/packages, go/types, reflection-based AST rewriting, printer, file system); it cannot be encoded by an SSA->SMT translator and has no symbolic dimension once a program is fixed — enumeration of concrete compiler runs would be a different technique (DESIGN §7)",
    "C15": "byte-identical output across runs/configurations is a statement about repeated process runs, map iteration in the compiler and leftovers on disk; no symbolic inputs and the code is not encodable (DESIGN §7)",
    "C16": "go:generate mode is pure file-system/toolchain behaviour (directory contents before/after cogen); not encodable by the SSA->SMT engine (DESIGN §7)",
}

PENDING = "check not built yet (work in progress; planned per DESIGN §6)"


def main():
    props = [json.loads(l) for l in open(os.path.join(VERIF, "properties.jsonl"))]
    hook_commits = []
    try:
        out = subprocess.run(["git", "-C", "/repo", "log", "--format=%H %s"], stdout=subprocess.PIPE, text=True).stdout
        hook_commits = [l.split()[0] for l in out.splitlines() if "verif hook" in l]
    except Exception:
        pass
    m = {
        "version": 1,
        "setup_cmd": "./setup.sh",
        "hooks": {
            "guard": "verif",
            "enable": "-tags verif (only the compile driver /verif/driver is built with it; it exposes the unoptimised stage-1 output)",
            "baseline_off_cmd": "cd /repo && GOFLAGS=-mod=mod go test -vet=off -count=1 ./seq ./rewriter ./example ./example/lexer ./example/linq ./example/sched1 ./example/sched2 ./example/tree",
            "source_commits": hook_commits,
            "add_only": True,
        },
        "engines": [{"name": "gocosym", "path": "engine", "serves_properties": sorted(CHECKS),
                     "kind_free_text": "SSA->SMT-LIB2 symbolic executor for Go written for this task (go/ssa with generics instantiated, explicit frame stacks, "
                                       "reference coroutine semantics for the co API, z3 -in per worker); driven by ./check"}],
        "checks": [],
        "not_applicable": [],
        "notes": "Checks rebuild the compiler driver and reload all SSA from /repo's working tree on every run. VERIF_REPO overrides /repo (used for mutants). "
                 "Exit 2 = the check could not run (repo does not build, coverage collapsed, engine/native mismatch).",
    }
    for p in props:
        pid = p["id"]
        if pid in CHECKS:
            level, tech, text, ref = CHECKS[pid]
            m["checks"].append({
                "property_id": pid,
                "quick_cmd": "./check %s quick" % pid,
                "thorough_cmd": "./check %s thorough" % pid,
                "evidence_file": "evidence/%s.json" % pid,
                "replay_cmd_template": "./check --replay {path}",
                "engine": "gocosym",
                "level_claimed": {"category": level, "text": text, "design_ref": ref},
                "level_note": TRUST,
                "technique": tech,
            })
        else:
            m["not_applicable"].append({"property_id": pid, "reason": NA.get(pid, PENDING)})
    with open(os.path.join(VERIF, "MANIFEST.json"), "w") as f:
        json.dump(m, f, indent=1)
    print("claimed:", [c["property_id"] for c in m["checks"]])


main()
