#!/usr/bin/env python3
"""tools/mut.py <file> <old> <new> [--baseline] -- <check args>...
Applies one textual mutation to a scratch copy of /repo (never /repo itself), optionally runs the
baseline suite there, runs ./check against it (VERIF_REPO), removes the copy."""
import os, shutil, subprocess, sys, tempfile

def main():
    a = sys.argv[1:]
    i = a.index("--")
    spec, checks = a[:i], a[i + 1:]
    baseline = "--baseline" in spec
    spec = [x for x in spec if x != "--baseline"]
    d = tempfile.mkdtemp(prefix="mutrepo_", dir="/var/tmp")
    repo = os.path.join(d, "repo")
    shutil.copytree("/repo", repo, ignore=shutil.ignore_patterns(".git"))
    try:
        for j in range(0, len(spec), 3):
            f, old, new = spec[j:j + 3]
            p = os.path.join(repo, f)
            s = open(p).read()
            old = old.encode().decode("unicode_escape"); new = new.encode().decode("unicode_escape")
            if s.count(old) != 1:
                print("MUT: pattern occurs %d times in %s" % (s.count(old), f)); return 2
            open(p, "w").write(s.replace(old, new))
        env = dict(os.environ, GOFLAGS="-mod=mod", GOPROXY="off", GOSUMDB="off", GOTOOLCHAIN="local", VERIF_REPO=repo)
        if baseline:
            r = subprocess.run("go test -vet=off -count=1 ./seq ./rewriter ./example ./example/lexer ./example/linq ./example/sched1 ./example/sched2 ./example/tree 2>&1 | tail -12", shell=True, cwd=repo, env=env)
        rc = 0
        for c in checks:
            r = subprocess.run(["/verif/check"] + c.split(), env=env, cwd="/verif", stdout=subprocess.PIPE, text=True)
            lines = r.stdout.strip().splitlines()
            print("MUT check %s rc=%d: %s" % (c, r.returncode, " | ".join(l[:160] for l in lines[:3] + lines[-1:])))
        return rc
    finally:
        shutil.rmtree(d, ignore_errors=True)

sys.exit(main())
