#!/bin/bash
# tools/runall.sh [quick|thorough] : runs every claimed check against /repo, prints one line each
cd "$(dirname "$0")/.."
tier=${1:-quick}
for p in $(python3 -c "import json; print(' '.join(c['property_id'] for c in json.load(open('MANIFEST.json'))['checks']))"); do
  s=$(date +%s)
  out=$(./check $p $tier 2>&1); rc=$?
  echo "$p rc=$rc $(( $(date +%s) - s ))s $(echo "$out" | grep -E '^SUMMARY|^ERROR|^VIOLATION' | tail -1 | cut -c1-200)"
done
