import json, os, re, shutil, subprocess, time
import runner
from runner import CLAIMED, CheckError, VERIF, REPO

COMMON_ASSUMPTIONS = [
    "go/packages + go/types + go/ssa builder (x/tools v0.29.0) give Go's semantics for the code they lower",
    "engine instruction semantics (gocosym): 64-bit wrap-around bit-vectors for ints, concrete heap structure, single goroutine",
    "z3 4.8.12 verdicts (sat/unsat); unknown/error lines are never read as unsat",
    "verifrt.Nondet*/Choose are fresh SMT constants; Choose and symbolic branches are forked with solver-checked feasibility",
]


def engine_common(ctx):
    return ["-budget", str(ctx.q(200000, 400000)), "-maxpaths", str(ctx.q(6000, 40000)),
            "-wall", ctx.q("120s", "900s"), "-samples", "1"]


def events_equal(engine_list, native_list):
    # DEPTH events (tag 8) carry raw frame counts, which legitimately differ between the engine
    # (interpreter frames) and a native run (runtime.Callers): only their presence is compared
    def norm(evs):
        return ["8 *" if e.startswith("8 ") else e for e in evs]
    return norm(runner.norm_events(engine_list or [])) == norm([e.strip() for e in (native_list or [])])


def process_harness(ctx, res, pkg_rel, max_replay_per_driver=2, order_free=None, depth_family=None):
    """Single-world harness results: replay models natively, classify, print lines.
    Returns (n_violations_new, known_matched, replayed, mismatches, details)."""
    cases = []
    for d in res["drivers"]:
        if d["status"] != "violated":
            continue
        fn = d["name"].split(".")[-1]
        for i, f in enumerate(d["failures"][:max_replay_per_driver]):
            cases.append(("%s__%d" % (fn, i), fn, f, d))
    new, known, details, mismatches = 0, [], [], 0
    if not cases:
        return new, known, 0, mismatches, details
    nat, testfile = runner.native_replay(ctx, pkg_rel, [(c[0], c[1], c[2]["model"]) for c in cases])

    def native_failed(f, n):
        if n is None:
            return False
        if f["kind"] == "uncaught-panic":
            return n["panic"] not in ("", "<nil>")
        if depth_family and f["assert_id"] in depth_family:
            # stack depths are not the same numbers natively (inlining, runtime frames): growth may
            # become visible at another advance; any failed depth assertion of the family confirms
            return any(a in depth_family for a in n["fails"])
        return f["assert_id"] in n["fails"]

    # native map iteration order is random: a failure that depends on the order (the engine fixes
    # one admissible order) may need several native runs to show
    if order_free:
        for _ in range(15):
            todo = [c for c in cases if re.search(order_free, c[3]["name"]) and not native_failed(c[2], nat.get(c[0]))]
            if not todo:
                break
            again, _tf = runner.native_replay(ctx, pkg_rel, [(c[0], c[1], c[2]["model"]) for c in todo])
            for c in todo:
                if native_failed(c[2], again.get(c[0])):
                    nat[c[0]] = again[c[0]]
    for cname, fn, f, d in cases:
        n = nat.get(cname)
        confirmed = False
        why = ""
        if n is None:
            why = "native replay produced no output: " + nat.get("_error", "")[-500:]
        else:
            # the native run must show the same logs the engine predicted and fail the same assertion
            same_logs = all(events_equal(f["logs"].get(l), n["logs"].get(l)) for l in set(f["logs"]) | set(n["logs"]))
            if order_free and re.search(order_free, d["name"]):
                same_logs = True  # native map iteration order is random; only the failure itself is compared
            failed = native_failed(f, n)
            if depth_family and f["assert_id"] in depth_family:
                same_logs = True
            confirmed = same_logs and failed
            if not confirmed:
                why = "native run disagrees with the engine (same_logs=%s, native fails=%s, panic=%s)" % (same_logs, n["fails"], n["panic"])
        if not confirmed:
            mismatches += 1
            print("ERROR engine-mismatch property=%s driver=%s: %s" % (ctx.pid, d["name"], why))
            details.append({"driver": d["name"], "engine_mismatch": why, "failure": f, "native": n})
            continue
        k = runner.match_known(ctx.pid, d["name"], f)
        meta = {"property": ctx.pid, "driver": d["name"], "assert_id": f["assert_id"], "kind": f["kind"], "msg": f["msg"],
                "model": f["model"], "engine_logs": f["logs"], "native": n,
                "rerun": "cd <scratch ws> && go test -run TestVerifReplay ./%s  (test file saved alongside)" % pkg_rel}
        if k:
            known.append({"finding": k["finding_id"], "driver": d["name"]})
            print("KNOWN-FINDING: property=%s %s [%s] driver=%s" % (ctx.pid, k["what"], k["finding_id"], d["name"]))
        else:
            new += 1
            path = runner.save_replay(ctx, d["name"] + json.dumps(f["model"], sort_keys=True), [testfile], meta)
            print("VIOLATION property=%s replay=%s" % (ctx.pid, path))
        details.append({"driver": d["name"], "known": bool(k), "failure": {"kind": f["kind"], "msg": f["msg"], "model": f["model"]}})
    return new, known, len(cases), mismatches, details


def self_validate(ctx, res, impl_tree=None, harness_pkg=None, order_free=None, max_pkgs=3, per_pkg=10, harness_pkg_of_driver=None):
    """Translator self-validation: the concrete logs the engine predicts for sampled decided paths
    (a model of the final path condition) must be what the natively compiled real code prints
    for the same nondet vector. Returns (validated, mismatches)."""
    by_pkg = {}
    for d in res["drivers"]:
        if d["status"] != "holds" or not d.get("samples") or (d.get("_extra") and ctx.ws.endswith("/ws")) or d.get("_rt"):
            continue
        if order_free and re.search(order_free, d["name"]):
            continue
        smp = d["samples"][0]
        if not smp.get("logs"):
            continue
        if harness_pkg:
            pkg_rel = harness_pkg
        elif harness_pkg_of_driver:
            pkg_rel = "%s/%s" % (harness_pkg_of_driver, d["name"].rsplit(".", 1)[0].split("/")[-1])
        else:
            pkg_rel = "%s/%s" % (impl_tree, d["name"].rsplit(".", 1)[0].split("/")[-1])
        by_pkg.setdefault(pkg_rel, []).append((d["name"].split(".")[-1], smp))
    validated, mism = 0, 0
    pkgs = sorted(by_pkg)[:max_pkgs] if ctx.tier == "quick" else sorted(by_pkg)[:max_pkgs * 3]
    for pkg_rel in pkgs:
        cases = by_pkg[pkg_rel][:per_pkg]
        nat, _ = runner.native_replay(ctx, pkg_rel, [(fn, fn, smp.get("model") or {}) for fn, smp in cases])
        for fn, smp in cases:
            n = nat.get(fn)
            if n is None:
                continue
            if harness_pkg or harness_pkg_of_driver:
                ok = all(events_equal(smp["logs"].get(l), n["logs"].get(l)) for l in set(smp["logs"]) | set(n["logs"])) and not n["fails"]
            else:
                ok = events_equal(smp["logs"].get("1"), n["logs"].get("0"))
            validated += 1
            if not ok:
                mism += 1
                print("ERROR engine-mismatch property=%s driver=%s: the natively compiled code prints a different log than the engine predicted for the same inputs" % (ctx.pid, fn))
                print("  engine:", json.dumps(smp["logs"])[:600])
                print("  native:", json.dumps(n)[:600])
    return validated, mism


def finish(ctx, res, level, new, known, replayed, mismatches, coverage_extra, assumptions, floors=None, sv=None):
    sv_count = 0
    if sv:
        sv_count, sv_mism = self_validate(ctx, res, **sv)
        mismatches += sv_mism
    agg = runner.summarize_engine(res)
    samples = []
    for d in res["drivers"]:
        for s in d.get("samples", [])[:1]:
            samples.append({"driver": d["name"], "paths": d["paths"], "status": d["status"], "model": s.get("model"), "logs": s.get("logs")})
        if len(samples) >= 6:
            break
    cov = {}
    if level == "model_checking":
        cov.update({"states": agg["ssa_instructions_executed"], "transitions": agg["branch_decisions"],
                    "traces_validated_against_impl": replayed + sv_count})
    elif level == "translation_validation":
        cov.update({"programs": coverage_extra.get("programs", agg["drivers"]), "disagreements_checked": replayed})
    cov["samples"] = samples or [{"note": "no completed path"}]
    cov.update(agg)
    cov["functions_encoded"] = runner.funcs_encoded(res)
    cov["solver"] = res.get("solver")
    cov["solver_diff"] = res.get("solver_diff", "not run in this tier (thorough tier or VERIF_SOLVER_DIFF=1)")
    cov["engine_limits"] = res.get("limits")
    cov["known_findings_matched"] = known
    cov["engine_native_mismatches"] = mismatches
    cov["native_cross_checked_paths"] = sv_count
    cov["skipped_packages"] = res.get("skipped_pairs") or {}
    cov.update(coverage_extra)
    runner.write_evidence(ctx, level, cov, COMMON_ASSUMPTIONS + assumptions, new)
    # coverage floor: a run that decides (almost) nothing is neither a pass nor a violation
    if mismatches:
        return 2
    if new:
        print("SUMMARY property=%s tier=%s violations=%d (see VIOLATION lines)" % (ctx.pid, ctx.tier, new))
        return 1
    if floors:
        for key, floor in floors.items():
            val = cov.get(key, 0)
            if key == "drivers_undecided_max":
                if cov.get("drivers_undecided", 0) > floor:
                    print("ERROR coverage-collapsed property=%s drivers_undecided=%s above the cap %s" % (ctx.pid, cov.get("drivers_undecided"), floor))
                    return 2
                continue
            if key == "drivers_holds":
                val = cov.get("drivers_holds", 0) + cov.get("drivers_violated", 0)  # decided drivers
            if val < floor:
                print("ERROR coverage-collapsed property=%s %s=%s below floor %s" % (ctx.pid, key, val, floor))
                return 2
    if mismatches:
        return 2
    print("SUMMARY property=%s tier=%s drivers=%d holds=%d violated=%d undecided=%d paths=%d queries=%d solver_s=%.1f wall_s=%.1f" % (
        ctx.pid, ctx.tier, agg["drivers"], agg["drivers_holds"], agg["drivers_violated"], agg["drivers_undecided"],
        agg["paths"], agg["queries"], agg["solver_time_s"], time.time() - ctx.t0))
    return 1 if new else 0


# ------------------------------------------------------------------------------------------------
# C09


def plan_C09(ctx):
    H = ctx.q(5, 7)
    nmax = ctx.q(3, 4)
    lines = ["package c09", ""]
    for n in range(0, nmax + 1):
        for ret in (0, 1):
            for echo in (0, 1):
                if ctx.thorough:
                    for first in range(4):
                        lines.append("func Drive_n%d_r%d_e%d_f%d() { Drive(%d, %s, %s, %d, %d) }" % (
                            n, ret, echo, first, n, "true" if ret else "false", "true" if echo else "false", H, first))
                else:
                    lines.append("func Drive_n%d_r%d_e%d() { Drive(%d, %s, %s, %d, -1) }" % (
                        n, ret, echo, n, "true" if ret else "false", "true" if echo else "false", H))
    with open(os.path.join(ctx.ws, "rt/c09/zz_drivers.go"), "w") as f:
        f.write("\n".join(lines) + "\n")
    os.remove(os.path.join(ctx.ws, "rt/c09/drivers_dev.go"))
    res = runner.run_engine(ctx, ["-harness", "verifws/rt/c09"] + engine_common(ctx))
    new, known, replayed, mism, details = process_harness(ctx, res, "rt/c09")
    extra = {
        "bounds": {"history_length_H": H, "yields_n": "0..%d" % nmax, "operations": ["MoveNext", "Current", "Send(x)", "Result"],
                   "family": "n yields x {ReturnValue(r), Normal()} x {plain Bind, echo BindRecv(recv+1)}",
                   "outside": "histories longer than H; generators with more than %d yields; Result() before completion is only required to have no effect" % nmax},
        "histories_explored": sum(d["completed"] for d in res["drivers"]),
        "exhaustive": True,
        "explanation": "every history of H operations (4^H per generator, forked by the executor) with symbolic yielded/sent/returned values; per history one solver query decides equality of the implementation log and the specification-automaton log",
        "details": details[:20],
    }
    return finish(ctx, res, "model_checking", new, known, replayed, mism, extra,
                  ["specification automaton in ws/rt/c09/c09.go (spec.advance/moveNext/send) is the reading of the property text"],
                  floors={"paths_completed": ctx.q(10000, 100000), "drivers_undecided_max": 2}, sv={"harness_pkg": "rt/c09"})


CLAIMED["C09"] = plan_C09


# ------------------------------------------------------------------------------------------------
# C08

C08_KINDS = ["Normal", "Break", "Continue", "Return", "ReturnValue", "Bind", "BindRecv", "Delay", "Combine", "For", "While", "Loop", "Breakable", "Continuable"]


def plan_C08(ctx):
    budget, depth, nops, nconds = ctx.q((4, 3, 4, 4), (5, 4, 5, 5))
    lines = ["package c08", ""]
    n = 0
    for k in range(5, len(C08_KINDS)):  # composite roots; leaf roots are covered as sub-terms and by one driver
        if ctx.thorough:
            for k2 in range(len(C08_KINDS)):
                if C08_KINDS[k] == "Loop" and C08_KINDS[k2] in ("Normal", "Continue", "For", "While", "Loop"):
                    continue  # Loop(x) with a body that can never leave or yield diverges in any semantics: excluded by Assume(terminates), the shard would be vacuous
                lines.append("func Drive_%s_%s() { Drive(%d, %d, %d, %d, %d, %d) }" % (C08_KINDS[k], C08_KINDS[k2], k, budget, depth, nops, nconds, k2))
                n += 1
        else:
            lines.append("func Drive_%s() { Drive(%d, %d, %d, %d, %d) }" % (C08_KINDS[k], k, budget, depth, nops, nconds))
            n += 1
    for k in range(0, 5):
        lines.append("func Drive_leaf_%s() { Drive(%d, %d, %d, %d, %d) }" % (C08_KINDS[k], k, budget, depth, nops, nconds))
    with open(os.path.join(ctx.ws, "rt/c08/zz_drivers.go"), "w") as f:
        f.write("\n".join(lines) + "\n")
    os.remove(os.path.join(ctx.ws, "rt/c08/drivers_dev.go"))
    args = engine_common(ctx)
    args[args.index("-maxpaths") + 1] = str(ctx.q(200000, 2000000))
    args[args.index("-wall") + 1] = ctx.q("300s", "3000s")
    res = runner.run_engine(ctx, ["-harness", "verifws/rt/c08"] + args)
    new, known, replayed, mism, details = process_harness(ctx, res, "rt/c08")
    extra = {
        "bounds": {"term_nodes_max": budget, "term_depth_max": depth, "consumer_operations": nops,
                   "condition_evaluations_that_may_be_true": nconds,
                   "node_kinds": C08_KINDS + ["For with/without cond and post"],
                   "outside": "larger terms; Send as the very first operation (C09); terms in which a condition-less loop can spin without yielding (excluded by Assume(terminates)); more than one advance after exhaustion"},
        "term_shape_x_script_paths": sum(d["completed"] for d in res["drivers"]),
        "exhaustive": True,
        "explanation": "term shapes and consumer scripts are enumerated by path forking (Choose), yielded/sent/returned values and condition outcomes are SMT variables; per path one query decides equality of the seq log with the reference interpreter's log",
        "details": details[:20],
    }
    return finish(ctx, res, "model_checking", new, known, replayed, mism, extra,
                  ["reference interpreter ws/rt/c08/c08.go (ref.exec) is the reading of 'structured loops with break/continue/return'",
                   "a top-level Break/Continue ends the generator with the zero result (what Start's final continuation does); not constrained by the property text"],
                  floors={"paths_completed": ctx.q(20000, 200000), "drivers_undecided_max": 2}, sv={"harness_pkg": "rt/c08"})


CLAIMED["C08"] = plan_C08


# ------------------------------------------------------------------------------------------------
# C10


def plan_C10(ctx):
    smax = ctx.q(4, 6)
    lines = ["package c10", ""]
    for n in range(0, smax + 1):
        lines.append("func Drive_string_%d() { DriveString(%d) }" % (n, n))
    # block boundaries: a 4-byte symbolic window in front of every power of two up to 2^kmax
    kmax = ctx.q(8, 12)
    for kk in range(3, kmax + 1):
        for j in (1, 2, 3):
            lines.append("func Drive_stringat_%d() { DriveStringAt(%d, 4) }" % ((1 << kk) - j, (1 << kk) - j))
    lines.append("func Drive_int() { DriveInt(%d) }" % ctx.q(4, 8))
    for n in range(0, ctx.q(3, 5) + 1):
        for extra in (0, 1):
            lines.append("func Drive_slice_%d_%d() { DriveSlice(%d, %d, %d) }" % (n, extra, n, extra, min(n + 1, ctx.q(3, 4))))
    lines.append("func Drive_nil() { DriveNil() }")
    for n in range(0, ctx.q(3, 4) + 1):
        lines.append("func Drive_map_int_int_%d() { DriveMapIntInt(%d, %d) }" % (n, n, n))
    for n in range(1, 4):
        lines.append("func Drive_map_string_any_%d() { DriveMapStringAny(%d) }" % (n, n))
        lines.append("func Drive_map_any_int_%d() { DriveMapAnyInt(%d) }" % (n, n))
    for n in range(0, 4):
        lines.append("func Drive_chan_%d() { DriveChan(%d) }" % (n, n))
    with open(os.path.join(ctx.ws, "rt/c10/zz_drivers.go"), "w") as f:
        f.write("\n".join(lines) + "\n")
    os.remove(os.path.join(ctx.ws, "rt/c10/drivers_dev.go"))
    args = engine_common(ctx)
    args[args.index("-maxpaths") + 1] = str(ctx.q(100000, 2000000))
    args[args.index("-wall") + 1] = ctx.q("300s", "3000s")
    res = runner.run_engine(ctx, ["-harness", "verifws/rt/c10"] + args)
    new, known, replayed, mism, details = process_harness(ctx, res, "rt/c10", order_free=r"Drive_map_")
    extra = {
        "bounds": {"string_bytes_max": smax, "string_bytes": "fully symbolic (all 256 values per byte, so ASCII, every multi-byte class and every invalid sequence)",
                   "long_strings": "concrete ASCII prefix of 2^k - j bytes (k = 3..%d, j = 1..3), then 4 fully symbolic bytes, then a concrete tail: every rune that straddles a power-of-two offset up to %d" % (kmax, 1 << kmax),
                   "integer_n": "every n <= %d (all n <= 0 in one path)" % ctx.q(4, 8),
                   "slice_len_max": ctx.q(3, 5), "slice_mutations": "per iteration one of none/store/append/shrink/nil, spare capacity 0 or 1",
                   "map_entries_max": ctx.q(3, 4), "map_key_value_types": ["int->int with deletion script", "string->any incl. nil", "any(incl. nil)->int"],
                   "chan_values_max": 3,
                   "outside": "longer fully symbolic strings/collections; block boundaries that are not powers of two or lie beyond the stated offset; map iteration order (one admissible order in both halves: insertion order, an entry created during the loop is produced next); outcomes of insertion during iteration other than that; unbuffered channels and concurrent senders; floating-point (NaN) map keys: the engine has no floating point (seed C10_r3 is therefore not caught)"},
        "exhaustive": True,
        "explanation": "native range and seq.New*Iter run in the same harness on the same symbolic input; UTF-8 decoding is forked per byte class with solver-checked feasibility; one equality query per path",
        "details": details[:20],
    }
    return finish(ctx, res, "model_checking", new, known, replayed, mism, extra,
                  ["string range, []rune(s) and utf8.DecodeRuneInString are modelled by one engine decoder that mirrors unicode/utf8 (validated natively against the real package in the engine self-test)",
                   "reflect.ValueOf/MapRange/MapIter.Next/Key/Value/Value.Interface are modelled with range semantics over an insertion-ordered map",
                   "integer range reference is the spec reading: i = 0..n-1, nothing for n <= 0"],
                  floors={"paths_completed": ctx.q(1000, 10000), "drivers_undecided_max": 2}, sv={"harness_pkg": "rt/c10", "order_free": r"Drive_map_"})


CLAIMED["C10"] = plan_C10


# ------------------------------------------------------------------------------------------------
# C17


def plan_C17(ctx):
    maxn = ctx.q(6, 10)
    lines = ["package c17", ""]
    for form, name in enumerate(["for", "while", "loop", "for_nocond"]):
        lines.append("func Drive_%s() { DriveLoop(%d, %d) }" % (name, form, maxn))
    lines.append("func Drive_nested() { DriveNested(%d) }" % ctx.q(4, 8))
    with open(os.path.join(ctx.ws, "rt/c17/zz_drivers.go"), "w") as f:
        f.write("\n".join(lines) + "\n")
    os.remove(os.path.join(ctx.ws, "rt/c17/drivers_dev.go"))
    # compiled part: filter loops and delegation chains with rt.Probe, compiled by the real compiler
    corp = corpus.Corpus(ctx, "c17")
    corp.driver_bin = runner.build_driver(ctx)
    nloop, dmax = ctx.q((6, 5), (9, 8))
    for p in gen.c17_programs(nloop, dmax):
        corp.add(p)
    corp.write(4, 0, -1, 2, batch=4)
    corp.compile()
    corp.quarantine_unbuildable(("out",))
    hargs = ["-harness", "verifws/rt/c17"]
    for d in corp.batches:
        if any(w == d for w in corp.where.values()):
            hargs += ["-harness", "verifws/out/%s" % d]
    args = engine_common(ctx)
    args[args.index("-maxpaths") + 1] = "100000"
    res = runner.run_engine(ctx, hargs + ["-drivers", "^Drive_|^DriveDepth_"] + args)
    direct = {"drivers": [d for d in res["drivers"] if "/rt/c17." in d["name"]]}
    DEPTH_IDS = set(range(1700, 1760))
    new, known, replayed, mism, details = process_harness(ctx, direct, "rt/c17", depth_family=DEPTH_IDS)
    for d in res["drivers"]:
        if "/rt/c17." in d["name"] or d["status"] != "violated":
            continue
        pkg_rel = "out/" + d["name"].rsplit(".", 1)[0].split("/")[-1]
        a, b, c, e, f = process_harness(ctx, {"drivers": [d]}, pkg_rel, max_replay_per_driver=1, depth_family=DEPTH_IDS)
        new += a; known += b; replayed += c; mism += e; details += f
    extra = {
        "bounds": {"non_yielding_iterations_n": "0..%d (symbolic, each iteration ends Normal or Continue)" % maxn,
                   "loop_forms": ["For(cond,post,body)", "While", "Loop", "For(nil,post,body)", "While nested in While"],
                   "compiled_generators": [n for n, _ in gen.C17_PROGRAMS] + ["delegation chain R(d)"],
                   "compiled_loop_iterations": nloop, "filter_mask": "symbolic: every subset of rejected iterations (2^%d) per generator" % nloop,
                   "delegation_depth": "0..%d, depth increments must be constant" % dmax,
                   "rounds": "every advance of the iterator separately (first advance and advances after resumptions)",
                   "outside": "n beyond the bound: 'independent of n' for larger n rests on every iteration executing the same code, which is not proved here; native stack bytes (the engine counts interpreter frames, the native replay counts runtime.Callers frames)"},
        "programs_compiled": len(corp.where), "programs_rejected_by_compiler": len(corp.rejected), "programs_output_unbuildable": len(corp.unbuildable),
        "rejected_by_message": hist(corp.rejected.values()), "unbuildable_by_message": hist(corp.unbuildable.values()),
        "exhaustive": True,
        "explanation": "depth is sampled in the loop condition / body at every iteration; the harness asserts depth_j == depth_1 for all j >= 2 (per advance), and constant depth increments per delegation level; the solver enumerates n, the per-iteration completion kinds and the filter masks",
        "details": details[:20],
    }
    return finish(ctx, res, "model_checking", new, known, replayed, mism, extra,
                  ["verifrt.Depth() = interpreter frame depth (sum over the resumer chain); Go has no tail calls, so frame count is a faithful proxy for stack growth up to a constant factor"],
                  floors={"paths_completed": ctx.q(300, 3000), "drivers_undecided_max": 2}, sv={"harness_pkg": "rt/c17"})


CLAIMED["C17"] = plan_C17


# ------------------------------------------------------------------------------------------------
# corpus-based (two-world) checks

import random
import gen, corpus


def directed_c01():
    """hand-listed shapes present in every tier (DESIGN §12)"""
    D = []
    Y = lambda e: ("yield", e)
    E = lambda n: ("eff", n)
    D.append(("sw_break_after_yield", [("switch", None, "a&1", [("1", [("if", "g1", [Y("a + 1"), ("break",)], None), Y("b + 2")])], [Y("a + 3")]), Y("b + 4")]))
    D.append(("sw_break_first", [("switch", None, "a&1", [("1", [("if", "g1", [("break",)], None), Y("b + 2")])], [Y("a + 3")]), Y("b + 4")]))
    D.append(("continue_yield_post", [("decl", "i", "0"), ("for", None, "i < n", Y("i + 100"), [("inc", "i"), ("if", "g1", [("continue",)], None), Y("i + 1")])]))
    D.append(("continue_yieldfrom_post", [("decl", "i", "0"), ("for", None, "i < n", ("yieldfrom", "H2(i)"), [("inc", "i"), ("if", "g1", [("continue",)], None), E(1)])]))
    D.append(("scope_break_block", [("for", ("decl", "i", "0"), "i < n", ("inc", "i"), [("decl", "i", "a"), ("block", [("if", "g1", [Y("i + 1")], [("break",)])])])]))
    D.append(("yields_all_clauses", [("decl", "i", "0"), ("for", Y("a + 1"), "i < n", Y("b + 2"), [Y("i + 3"), ("inc", "i")])]))
    D.append(("capture_across_yield", [("decl", "x", "a"), ("raw", "f := func() { x++ }\nget := func() int { return x }"), Y("get() + 1"), ("raw", "f()"), Y("x + 2")]))
    D.append(("block_then_yield", [("block", [Y("a + 1")]), Y("b + 2")]))
    D.append(("if_return_yield", [("if", "g1", [("return",)], None), Y("a + 1")]))
    D.append(("inf_break_yield", [("for", None, None, None, [("if", "g1", [("break",)], None), Y("a + 1")])]))
    D.append(("elif_chain", [("if", "g1", [Y("a + 1")], [("if", "g2", [Y("b + 2")], [E(1)])]), E(2)]))
    D.append(("nested_for_cont_break", [("for", ("decl", "i", "0"), "i < n", ("inc", "i"), [("for", ("decl", "j", "0"), "j < n", ("inc", "j"), [("if", "g1", [("continue",)], None), ("if", "g2", [("break",)], None), Y("i*4 + j")])])]))
    D.append(("tswitch", [("raw", "var x any = a\nif g1 {\n\tx = \"s\"\n}"), ("tswitch", "v", "x", [("int", [Y("v + 1")]), ("string", [Y("len(v) + 2")])], [("return",)]), Y("b + 3")]))
    D.append(("switch_init", [("switch", ("decl", "z", "a&3"), "z", [("0", [Y("z + 1")]), ("1", [E(1)])], [Y("z + 2")]), Y("b + 3")]))
    D.append(("switch_in_loop_break_continue", [("for", ("decl", "i", "0"), "i < n", ("inc", "i"), [("switch", None, "i&3", [("0", [Y("i + 1"), ("continue",)]), ("1", [("break",)])], [Y("i + 2")]), Y("i + 3")])]))
    D.append(("loop_return_mid", [("for", ("decl", "i", "0"), "i < n", ("inc", "i"), [Y("i + 1"), ("if", "i == 1 && g1", [("return",)], None), E(1)]), Y("a + 9")]))
    D.append(("while_yield_first", [("decl", "i", "0"), ("for", None, "i < n", None, [Y("i + 1"), ("inc", "i"), ("if", "g1", [("continue",)], None), E(1)])]))
    D.append(("closure_loop", [("decl", "s", "0"), ("raw", "add := func(d int) { s += d }"), ("for", ("decl", "i", "0"), "i < n", ("inc", "i"), [("raw", "add(i + a)"), Y("s + 1")]), Y("s + 2")]))
    D.append(("native_loop_break_end", [("decl", "s", "0"), ("for", ("decl", "i", "0"), "i < n", ("inc", "i"), [("assign", "s", "s + i"), ("if", "g1", [("break",)], None)]), Y("s + 1")]))
    D.append(("native_switch_end", [Y("a + 1"), ("decl", "s", "0"), ("switch", None, "a&1", [("0", [("assign", "s", "1")])], [("assign", "s", "2")]), ("effv", 1, "s")]))
    D.append(("tagless_switch", [("switch", None, None, [("a > b", [Y("a + 1")]), ("g1", [Y("b + 2")])], [E(1)]), Y("a + 3")]))
    D.append(("case_ends_if", [("switch", None, "a&1", [("0", [E(1), ("if", "g1", [Y("a + 1")], None)])], [Y("b + 2")]), Y("a + 3")]))
    D.append(("native_loop_switch_continue", [("decl", "t", "0"), ("for", ("decl", "i", "0"), "i < n", ("inc", "i"), [("switch", None, "i&1", [("0", [("continue",)])], None), ("assign", "t", "t + i + a")]), Y("t + 1"), Y("b + 2")]))
    D.append(("native_loop_switch_continue_in_loop", [("for", ("decl", "j", "0"), "j < n", ("inc", "j"), [("decl", "t", "0"), ("for", ("decl", "i", "0"), "i < 3", ("inc", "i"), [("switch", None, "i&1", [("0", [("continue",)]), ("1", [("assign", "t", "t + i")])], None), ("assign", "t", "t + a")]), Y("t + j")])]))
    D.append(("native_loop_tswitch_continue", [("decl", "t", "0"), ("raw", "var xs = []any{a, \"s\", b}"), ("range", "_", "e", ":=", "xs", [("tswitch", "v", "e", [("string", [("continue",)]), ("int", [("assign", "t", "t + v")])], None), ("assign", "t", "t + 1")]), Y("t + 3")]))
    D.append(("native_loop_noinit_inner", [("for", ("decl", "i", "0"), "i < n", ("inc", "i"), [("decl", "j", "0"), ("for", None, "j < 2", ("inc", "j"), [Y("i*10 + j")])])]))
    D.append(("inner_for_no_init_post", [("decl", "j", "0"), ("for", ("decl", "i", "0"), "i < n", ("inc", "i"), [("assign", "j", "0"), ("for", None, "j < 2", ("inc", "j"), [Y("i*10 + j")])])]))
    D.append(("inner_for_first_stmt_reentered", [("decl", "j", "0"), ("for", ("decl", "i", "0"), "i < n", ("inc", "i"), [("for", None, "j < 2", ("inc", "j"), [Y("i*10 + j")]), ("assign", "j", "0")])]))
    D.append(("inner_while_first_stmt_reentered", [("decl", "j", "0"), ("for", ("decl", "i", "0"), "i < n", ("inc", "i"), [("for", None, "j < 2", None, [Y("i*10 + j"), ("inc", "j")]), ("assign", "j", "0")])]))
    D.append(("yield_post_body_ends_all_yielding_if", [("decl", "i", "0"), ("for", None, "i < n", Y("i + 100"), [("inc", "i"), ("if", "g1", [Y("i + 1")], [Y("i + 2")])])]))
    D.append(("yield_post_body_ends_yielding_switch", [("decl", "i", "0"), ("for", None, "i < n", Y("i + 100"), [("inc", "i"), ("switch", None, "i&1", [("0", [Y("i + 1")])], [Y("i + 2")])])]))
    D.append(("assign_init_reused_counter", [("decl", "i", "0"), ("for", ("assign", "i", "0"), "i < n", ("inc", "i"), [Y("i + 1")]), ("for", ("assign", "i", "0"), "i < n", ("inc", "i"), [Y("i + 10")])]))
    D.append(("assign_init_inner_reentered", [("decl", "j", "0"), ("for", ("decl", "i", "0"), "i < n", ("inc", "i"), [("for", ("assign", "j", "0"), "j < 2", ("inc", "j"), [Y("i*10 + j")])])]))
    D.append(("assign_init_countdown", [("decl", "i", "0"), ("for", ("assign", "i", "n"), "i > 0", ("raw", "i--"), [Y("i + a")]), Y("i + 5")]))
    D.append(("call_init", [("decl", "i", "0"), ("for", E(7), "i < n", ("inc", "i"), [Y("i + 1")]), E(8)]))
    D.append(("assign_init_yield_post", [("decl", "i", "5"), ("for", ("assign", "i", "0"), "i < n", Y("i + 100"), [("inc", "i"), E(1)])]))
    D.append(("switch_define_init_no_default", [("switch", ("decl", "z", "a&3"), "z", [("1", [Y("z + 1")])], None), Y("b + 9")]))
    D.append(("block_ends_in_yielding_switch", [Y("a"), ("block", [E(1), ("switch", None, "a&1", [("0", [Y("a + 1")])], None)]), Y("b + 9")]))
    D.append(("tswitch_define_init_no_default", [("raw", "var t any = a\nif g1 {\n\tt = \"s\"\n}"), ("raw", "switch k := b; v := t.(type) {\ncase int:\n\tYield(v + k)\n}"), Y("b + 9")]))
    D.append(("block_ends_in_yielding_if", [Y("a"), ("block", [E(1), ("if", "g1", [Y("a + 1")], None)]), Y("b + 9")]))
    D.append(("if_assign_init_yielding", [("decl", "x", "a"), ("raw", "if x = b + 1; x&1 == 0 {\n\tYield(x + 1)\n}"), Y("x + 2")]))
    D.append(("if_call_init_yielding", [("raw", "if rt.Emit(rt.EFF, 31); g1 {\n\tYield(a + 1)\n} else {\n\tYield(b + 2)\n}"), Y("a + 3")]))
    D.append(("elseif_assign_init_yielding", [("decl", "x", "a"), ("raw", "if g1 {\n\tYield(x)\n} else if x = b + 1; g2 {\n\tYield(x + 1)\n} else {\n\trt.Emit(rt.EFF, 32)\n}"), Y("x + 2")]))
    D.append(("if_define_init_yielding", [("raw", "if v := a + 1; v&1 == 0 {\n\tYield(v)\n} else {\n\tYield(v + 1)\n}"), Y("b")]))
    D.append(("if_incdec_init_in_loop", [("decl", "c", "0"), ("for", ("decl", "i", "0"), "i < n", ("inc", "i"), [("raw", "if c++; c&1 == 1 {\n\tYield(c + i)\n}")]), Y("c + 9")]))
    for jn, jump in (("continue", ("continue",)), ("break", ("break",))):
        D.append(("guard_%s_elseif_yields_then_rest" % jn, [("for", ("decl", "i", "0"), "i < n", ("inc", "i"), [Y("i + 1"), ("if", "g1", [E(1), jump], [("if", "g2", [Y("i + 100")], None)]), Y("i + 200"), E(2)]), Y("a + 3")]))
        D.append(("guard_%s_two_elseifs_then_rest" % jn, [("for", ("decl", "i", "0"), "i < n", ("inc", "i"), [Y("i + 1"), ("if", "i == 1", [jump], [("if", "g1", [E(1)], [("if", "g2", [Y("i + 100"), E(3)], None)])]), E(2), Y("i + 200")]), Y("a + 3")]))
        D.append(("guard_%s_elseif_in_block" % jn, [("for", ("decl", "i", "0"), "i < n", ("inc", "i"), [("block", [("if", "g1", [Y("i + 1"), jump], [("if", "g2", [Y("i + 100")], None)]), Y("i + 200")]), E(2)]), Y("a + 3")]))
    D.append(("guard_return_elseif_yields_then_rest", [Y("a + 1"), ("if", "g1", [E(1), ("return",)], [("if", "g2", [Y("b + 100")], None)]), Y("a + 200"), E(2)]))
    D.append(("continue_in_if_yield_post", [("decl", "i", "0"), ("for", None, "i < n", ("yield", "i + 100"), [("inc", "i"), Y("i + 1"), ("if", "g1", [E(1), ("continue",)], [Y("i + 2")]), E(2)]), Y("a")]))
    D.append(("continue_in_switch_yield_post", [("decl", "i", "0"), ("for", None, "i < n", ("yield", "i + 100"), [("inc", "i"), ("switch", None, "i & 1", [("0", [Y("i + 1"), ("continue",)]), ("1", [E(1)])], None), Y("i + 2")]), Y("a")]))
    D.append(("continue_trivial_body_yield_post", [("decl", "i", "0"), ("decl", "t", "0"), ("for", None, "i < n", ("yield", "t + 100"), [("inc", "i"), ("if", "g1", [("continue",)], None), ("assign", "t", "t + i")]), Y("t")]))
    D.append(("continue_nested_loops_yield_post", [("decl", "i", "0"), ("for", None, "i < n", ("yield", "i + 100"), [("inc", "i"), ("for", ("decl", "j", "0"), "j < 2", ("inc", "j"), [("if", "g1", [("continue",)], None), Y("i*10 + j")]), ("if", "g2", [("continue",)], None), Y("i + 50")]), Y("a")]))
    D.append(("break_and_continue_yield_post", [("decl", "i", "0"), ("for", None, "i < n + 2", ("yieldfrom", "H2(i)"), [("inc", "i"), ("if", "i == 2", [("continue",)], None), ("if", "i > 3", [("break",)], None), Y("i + 1")]), Y("a")]))
    D.append(("switch_break_in_nested_if_then_rest", [("for", ("decl", "i", "0"), "i < n", ("inc", "i"), [("switch", None, "i & 1", [("0", [("if", "g1", [Y("i + 1")], [("break",)]), Y("i + 2")])], [Y("i + 3")]), Y("i + 4")]), Y("a")]))
    D.append(("switch_break_in_block_after_yield", [("switch", None, "a & 1", [("0", [("block", [Y("a + 1"), ("if", "g1", [("break",)], None), E(1)]), Y("a + 2")])], None), Y("b")]))
    D.append(("tswitch_break_after_yield", [("raw", "var t any = a"), ("for", ("decl", "i", "0"), "i < n", ("inc", "i"), [("tswitch", "v", "t", [("int", [Y("v + i"), ("if", "g1", [("break",)], None), Y("v + 1")])], None), Y("i + 2")]), Y("b")]))
    D.append(("continue_then_break_behind_yield_yield_post", [("decl", "i", "0"), ("for", None, "i < n + 3", ("yield", "i + 100"), [("inc", "i"), ("if", "g1", [("continue",)], None), Y("i + 1"), ("if", "i >= 1", [("break",)], None), E(1)]), Y("a")]))
    D.append(("yield_first_then_continue_yield_post", [("for", ("decl", "i", "0"), "i < n", ("yield", "0 - 1"), [Y("i + 1"), ("inc", "i"), ("if", "g1", [("continue",)], None), E(1)]), Y("a")]))
    D.append(("yield_only_body_continue_in_if_yield_post", [("decl", "i", "0"), ("for", None, "i < n", ("yield", "i + 100"), [("if", "g1", [Y("i + 1"), ("inc", "i"), ("continue",)], [("inc", "i")])]), Y("a")]))
    D.append(("switch_break_and_continue_in_loop", [("for", ("decl", "i", "0"), "i < n + 1", ("inc", "i"), [("switch", None, "i & 1", [("0", [Y("i + 1"), ("continue",)]), ("1", [Y("i + 2"), ("if", "g1", [("break",)], None), Y("i + 3")])], None), Y("i + 4")]), Y("a")]))
    D.append(("switch_in_yield_post_loop_break_continue", [("decl", "i", "0"), ("for", None, "i < n + 1", ("yield", "i + 100"), [("inc", "i"), ("switch", None, "i & 1", [("0", [Y("i + 1"), ("if", "g1", [("break",)], None), Y("i + 2")]), ("1", [Y("i + 3"), ("continue",)])], None), Y("i + 4")]), Y("a")]))
    # a yielding initialiser in front of a loop that stays native
    D.append(("yield_init_native_loop_body_ends_in_if", [("decl", "i", "0"), ("for", ("yield", "a + 100"), "i < n", ("inc", "i"), [E(1), ("if", "i & 1 == 0", [E(2)], None)]), Y("i + 1"), E(3)]))
    D.append(("yield_init_native_loop_body_ends_in_switch", [("decl", "i", "0"), ("decl", "t", "0"), ("for", ("yield", "b + 100"), "i < n + 1", ("inc", "i"), [("switch", None, "i & 1", [("0", [("assign", "t", "t + i")])], None)]), Y("t + 1")]))
    D.append(("yieldfrom_init_native_loop_body_ends_in_if_else", [("decl", "i", "0"), ("decl", "t", "0"), ("for", ("yieldfrom", "H2(a)"), "i < n", ("inc", "i"), [("if", "g1", [("assign", "t", "t + 1")], [("if", "g2", [("assign", "t", "t + 2")], None)])]), Y("t"), Y("i")]))
    # a break of the switch behind a yield, inside an if that is the LAST statement of its clause
    D.append(("switch_clause_ends_in_if_with_break_behind_yield", [("for", ("decl", "i", "0"), "i < n + 1", ("inc", "i"), [("switch", None, "i & 1", [("0", [E(1), ("if", "g1", [Y("i + 1"), ("if", "g2", [("break",)], None), Y("i + 2")], None)]), ("1", [E(2)])], None), Y("i + 3")]), Y("a")]))
    D.append(("switch_clause_ends_in_if_else_with_break_behind_yield", [("switch", None, "a & 1", [("0", [("if", "g1", [Y("a + 1"), ("break",)], [Y("a + 2"), ("if", "g2", [("break",)], None), E(1)])])], [E(2)]), Y("b + 3")]))
    D.append(("tswitch_clause_ends_in_if_with_break_behind_yield", [("raw", "var t any = a"), ("for", ("decl", "i", "0"), "i < n", ("inc", "i"), [("tswitch", "v", "t", [("int", [("if", "g1", [Y("v + i"), ("break",)], None)])], None), Y("i + 2")]), Y("b")]))
    D.append(("explicitly_instantiated_yields", [("yield", "a + 1", "inst"), E(1), ("for", ("decl", "i", "0"), "i < n", ("inc", "i"), [("yield", "i + 2", "inst"), ("if", "g1", [("yieldfrom", "H2(i)", "inst")], None)]), ("yield", "b + 3", "inst")]))
    # a delimited switch that ends a nested block (not the function) and is followed by more statements
    D.append(("breakable_switch_last_in_if_body", [("if", "g1", [E(1), ("switch", None, "a & 1", [("0", [Y("a + 1"), ("if", "g2", [("break",)], None), Y("a + 2")])], [E(2)])], None), Y("b + 3"), E(3)]))
    D.append(("breakable_switch_last_in_block", [("block", [Y("a"), ("switch", None, "b & 1", [("1", [Y("b + 1"), ("break",), E(1)])], None)]), Y("a + 2")]))
    D.append(("breakable_switch_last_in_outer_clause", [("switch", None, "a & 1", [("0", [E(1), ("switch", None, "b & 1", [("0", [Y("b + 1"), ("if", "g1", [("break",)], None), Y("b + 2")])], None)])], [E(2)]), Y("a + 3")]))
    D.append(("breakable_switch_last_in_else", [("if", "g1", [E(1)], [("switch", None, "a & 1", [("0", [("yieldfrom", "H2(a)"), ("break",)])], [Y("b")])]), Y("a + 4")]))
    # a post statement that is a call whose callee is computed: evaluated after every iteration
    D.append(("post_call_with_computed_callee", [("raw", "steps := []func(){func() { rt.Emit(40, a) }, func() { rt.Emit(41, b) }}"), ("decl", "i", "0"), ("for", None, "i < n", ("raw", "steps[i&1]()"), [Y("i + 1"), ("inc", "i")]), Y("a")]))
    D.append(("post_call_callee_returned_by_call", [("raw", "pick := func() func() {\n\trt.Emit(rt.EFF, 42)\n\treturn func() { rt.Emit(rt.EFF, 43) }\n}"), ("decl", "i", "0"), E(1), Y("b"), ("for", None, "i < n", ("raw", "pick()()"), [("inc", "i"), Y("i + 1")]), Y("a")]))
    D.append(("post_call_reassigned_callee", [("raw", "f := func() { rt.Emit(rt.EFF, 44) }"), ("decl", "i", "0"), ("for", None, "i < n", ("raw", "f()"), [("inc", "i"), Y("i + 1"), ("raw", "f = func() { rt.Emit(40, i) }")]), Y("a")]))
    # an ordinary closure inside a native (yield-free) loop / switch of a generator, then a jump of that statement
    D.append(("closure_in_native_loop_then_break", [("decl", "t", "0"), ("for", ("decl", "i", "0"), "i < n + 2", ("inc", "i"), [("raw", "f := func() int {\n\tdefer func() {}()\n\treturn i + a\n}"), ("if", "f() > b", [("break",)], None), ("if", "i == 1", [("continue",)], None), ("assign", "t", "t + f()")]), Y("t + 1"), Y("b")]))
    D.append(("closure_in_native_switch_then_break", [("decl", "t", "0"), Y("a"), ("switch", None, "b & 1", [("0", [("raw", "g := func() int { return a + 1 }"), ("if", "g1", [("break",)], None), ("assign", "t", "g()")])], [("assign", "t", "7")]), Y("t + 2")]))
    D.append(("closure_in_native_range_then_continue", [("decl", "t", "0"), ("range", "_", "v", ":=", "[]int{a, b, a + b}", [("raw", "h := func() bool { return v&1 == 0 }"), ("if", "h()", [("continue",)], None), ("assign", "t", "t*2 + v")]), Y("t")]))
    # condition-only loop: yielding compound statement with a continue, then yield-free trailing statements
    D.append(("while_continue_in_yielding_if_then_trailing", [("decl", "i", "0"), ("for", None, "i < n + 1", None, [("if", "i & 1 == 0", [Y("i + 1"), ("inc", "i"), ("continue",)], None), ("inc", "i"), E(1)]), Y("a")]))
    D.append(("while_continue_in_yielding_switch_then_trailing", [("decl", "i", "0"), ("decl", "t", "0"), ("for", None, "i < n + 1", None, [("switch", None, "i & 1", [("0", [Y("i + t"), ("inc", "i"), ("continue",)])], None), ("inc", "i"), ("assign", "t", "t + 10")]), Y("t")]))
    D.append(("while_continue_after_delegation_then_trailing", [("decl", "i", "0"), ("for", None, "i < n", None, [("if", "g1", [("yieldfrom", "H2(i)"), ("inc", "i"), ("continue",)], None), ("inc", "i"), E(2)]), Y("i")]))
    # a loop with a post whose body ends in a terminating statement, with a continue in front of it
    D.append(("post_loop_body_ends_in_return_continue_before", [("for", ("decl", "i", "0"), "i < n + 2", ("inc", "i"), [("if", "i & 1 == 0", [Y("i + 1"), ("continue",)], None), Y("i + 100"), ("return",)]), Y("a")]))
    D.append(("yield_post_loop_body_ends_in_return_continue_before", [("decl", "i", "0"), ("for", None, "i < n + 2", ("yield", "i + 200"), [("inc", "i"), ("if", "g1", [("continue",)], None), Y("i + 1"), ("return",)]), Y("b")]))
    D.append(("post_loop_body_ends_in_endless_loop", [("for", ("decl", "i", "0"), "i < n + 1", ("inc", "i"), [("if", "i == 0", [("continue",)], None), ("for", None, None, None, [Y("i + 1"), ("if", "g1", [("return",)], None), ("inc", "i"), ("if", "i > 3", [("return",)], None)])]), Y("a")]))
    # a switch whose only clause is default: the tag is still evaluated
    D.append(("default_only_switch_tag_effect", [("switch", None, "rt.Eff(77, a & 1)", [], [Y("a + 1"), E(1)]), ("for", ("decl", "i", "0"), "i < n", ("inc", "i"), [("switch", None, "rt.Eff(78, i)", [], [Y("i + 2")])]), Y("b")]))
    D.append(("tagless_switch_in_loop_with_continue", [("for", ("decl", "i", "0"), "i < n", ("inc", "i"), [("switch", None, None, [("i == 0", [Y("a + 1")]), ("i > 1", [Y("i + 2"), ("continue",)])], [E(1)]), Y("i + 100")]), Y("b")]))
    D.append(("tagless_switch_with_init_last_in_loop", [("for", ("decl", "i", "0"), "i < n", ("inc", "i"), [("switch", ("decl", "x", "i + a"), None, [("x > b", [Y("x + 1")]), ("g1", [E(1)])], None)]), Y("b")]))
    D.append(("for_without_condition", [("for", ("decl", "i", "0"), None, ("inc", "i"), [("if", "i >= n", [("break",)], None), Y("i + 1"), ("if", "g1", [("continue",)], None), E(1)]), Y("a")]))
    D.append(("for_without_condition_yielding_post", [("decl", "i", "0"), ("for", None, None, ("yield", "i + 100"), [("inc", "i"), ("if", "i > n", [("break",)], None), Y("i + 1")]), Y("a")]))
    D.append(("switch_last_in_loop_no_default", [("for", ("decl", "i", "0"), "i < n", ("inc", "i"), [E(1), ("switch", None, "i & 1", [("0", [Y("i + 1")])], None)]), Y("a")]))
    D.append(("switch_last_in_case_no_default", [("switch", None, "a & 1", [("0", [Y("a + 1"), ("switch", None, "b & 1", [("1", [Y("b + 2")])], None)])], [Y("a + 3")]), Y("b")]))
    D.append(("switch_after_combine_no_default", [("if", "g1", [Y("a + 1")], None), ("switch", None, "b & 1", [("1", [Y("b + 2")])], None)]))
    D.append(("empty_case_clause_absorbs", [("for", ("decl", "i", "0"), "i < n + 2", ("inc", "i"), [("switch", None, "(i + a) & 3", [("0", []), ("1", [Y("i + 1")]), ("2", [])], [Y("i + 100"), E(1)])]), Y("b")]))
    D.append(("empty_case_clause_tswitch", [("raw", "var t any = a\nif g1 {\n\tt = \"s\"\n} else if g2 {\n\tt = nil\n}"), ("tswitch", None, "t", [("string", []), ("int", [Y("a + 1")])], [Y("b + 2")]), Y("b + 3")]))
    D.append(("empty_default_clause", [("switch", None, "a & 1", [("0", [Y("a + 1")])], []), Y("b + 2")]))
    D.append(("else_block_starts_with_trivial_if", [("if", "g1", [Y("a + 1")], [("if", "g2", [E(1)], None), Y("b + 2"), E(2)]), Y("a + 3")]))
    D.append(("else_block_trivial_if_in_loop", [("for", ("decl", "i", "0"), "i < n", ("inc", "i"), [("if", "i&1 == 0", [Y("i + 1")], [("if", "g2", [E(1)], None), E(2), Y("i + 2"), E(3)]), E(4)]), Y("a + 3")]))
    # an else-less if whose body is one else-less if with an initialiser: the initialiser runs only when the outer condition holds
    D.append(("nested_if_inner_init_effect", [E(1), ("raw", "if g1 {\n\tif x := rt.Eff(772, a); x&1 == 0 {\n\t\tYield(x + 1)\n\t}\n}"), Y("b + 2")]))
    D.append(("nested_if_inner_init_assign_in_loop", [("decl", "x", "b"), ("for", ("decl", "i", "0"), "i < n", ("inc", "i"), [("raw", "if (i + a)&1 == 0 {\n\tif x = rt.Eff(773, x + i); g2 {\n\t\tYield(x + 3)\n\t}\n}"), E(2)]), Y("x + 4")]))
    D.append(("nested_if_outer_init_inner_plain", [("raw", "if x := rt.Eff(774, a); x&1 == 0 {\n\tif g1 {\n\t\tYield(x + 5)\n\t\trt.Emit(rt.EFF, 775)\n\t}\n}"), Y("b + 6")]))
    # an expression statement that merely contains a closure with a panic is not a terminating statement
    D.append(("closure_with_panic_as_argument_not_last", [E(1), ("raw", "chk := func(f func() int) int {\n\treturn f()\n}\nrt.Emit(45, chk(func() int {\n\tif a != a {\n\t\tpanic(\"never mind\")\n\t}\n\treturn a\n}))"), Y("a + 1"), E(2), Y("b + 2")]))
    D.append(("iife_with_panic_in_loop_body", [("for", ("decl", "i", "0"), "i < n", ("inc", "i"), [("raw", "func() {\n\tif i > 5 {\n\t\tpanic(i)\n\t}\n}()"), Y("i + 1"), E(3)]), Y("a")]))
    # a continue of a loop with a yielding post, followed by nested loops / delegations in the same body
    D.append(("continue_then_nested_loop_yield_post", [("decl", "i", "0"), ("for", None, "i < n", Y("i + 100"), [("inc", "i"), ("if", "g1", [("continue",)], None), ("for", ("decl", "j", "0"), "j < 2", ("inc", "j"), [E(4)]), Y("i + 1")])]))
    D.append(("continue_then_nested_range_yield_post", [("decl", "i", "0"), ("for", None, "i < n", Y("i + 100"), [("inc", "i"), ("if", "(i+a)&1 == 0", [("continue",)], None), ("range", "_", "w", ":=", "[]int{1, 2}", [Y("i*10 + w")])])]))
    D.append(("continue_then_yieldfrom_yieldfrom_post", [("decl", "i", "0"), ("for", None, "i < n", ("yieldfrom", "H2(i + 50)"), [("inc", "i"), ("if", "(i+a)&1 == 0", [E(5), ("continue",)], None), ("yieldfrom", "H2(i)")])]))
    # pinned after a regression run of the older seeds (C01_r9 was caught through sampled programs only)
    D.append(("tagless_switch_native_break_before_yield_in_loop", [("for", ("decl", "i", "0"), "i < n + 1", ("inc", "i"), [("raw", "switch {\ncase (i+a)&1 == 0:\n\tif g1 {\n\t\tbreak\n\t}\n\tYield(i + 1)\n\trt.Emit(rt.EFF, 790)\ncase g2:\n\tYield(i + 2)\ndefault:\n\trt.Emit(rt.EFF, 791)\n}"), Y("i + 3")]), Y("a")]))
    D.append(("tagless_switch_native_break_before_yield_no_loop", [E(1), ("raw", "switch {\ncase g1:\n\tif g2 {\n\t\tbreak\n\t}\n\tYield(a + 1)\ncase g3:\n\trt.Emit(rt.EFF, 792)\n}"), Y("b + 2")]))
    D.append(("switch_assign_init_yielding", [("decl", "z", "a"), ("raw", "switch z = b & 3; z {\ncase 0:\n\tYield(z + 1)\ncase 1:\n\trt.Emit(rt.EFF, 793)\ndefault:\n\tYield(z + 2)\n\tz++\n}"), Y("z + 3")]))
    D.append(("switch_assign_init_in_yield_free_parent", [("decl", "z", "a"), ("if", "g1", [("raw", "switch z = b & 1; z {\ncase 0:\n\trt.Emit(rt.EFF, 794)\n}")], None), Y("z + 4")]))
    D.append(("if_init_define_yielding_else_if", [("raw", "if v := rt.Eff(795, a) & 3; v == 0 {\n\tYield(v + 1)\n} else if w := rt.Eff(796, b) & 1; w == 0 {\n\tYield(v + w + 2)\n} else {\n\trt.Emit(40, v+w)\n}"), Y("b + 3")]))
    D.append(("if_init_assign_and_call_yielding", [("decl", "z", "a"), ("raw", "if z = rt.Eff(797, b); z&1 == 0 {\n\tYield(z + 1)\n} else {\n\tYield(z + 2)\n}\nif rt.Emit(rt.EFF, 798); g1 {\n\tYield(z + 3)\n}\nif z++; g2 {\n\tYield(z + 4)\n}"), Y("z + 5")]))
    # pinned (seed C07_r8): a continue directly behind a compound yielding statement inside a branch that is followed by more statements
    D.append(("continue_after_yielding_if_in_branch", [("for", ("decl", "i", "0"), "i < n", ("inc", "i"), [("if", "g1", [("if", "g2", [Y("i + 1")], None), ("continue",)], None), E(1), Y("i + 2")]), Y("a")]))
    D.append(("continue_after_yielding_switch_in_branch", [("for", ("decl", "i", "0"), "i < n", ("inc", "i"), [("if", "(i+a)&1 == 0", [("switch", None, "i & 1", [("0", [Y("i + 3")])], [E(2)]), ("continue",)], [E(3)]), Y("i + 4"), E(4)]), Y("b")]))
    D.append(("break_after_yielding_loop_in_branch", [("for", ("decl", "i", "0"), "i < n", ("inc", "i"), [("if", "g1 && i == 1", [("for", ("decl", "j", "0"), "j < 2", ("inc", "j"), [Y("i*10 + j")]), ("break",)], None), Y("i + 5")]), E(5), Y("a + 6")]))
    D.append(("yielding_switch_ends_loop", [("for", ("decl", "i", "0"), "i < n", ("inc", "i"), [("switch", None, "i&1", [("0", [Y("i + 1")])], None)]), Y("a + 2")]))
    return D


C01_HELPERS = gen.C01_HELPERS_TEXT


def pkgvar_bodies():
    """yield operands that are qualified identifiers of another package: constants, but also
    exported variables that change between two evaluations (seed C07_r14)"""
    Y = lambda e: ("yield", e)
    B = []
    B.append(("loop_yield_var", [("raw", "conf.Level = b"), ("for", ("decl", "i", "0"), "i < n", ("inc", "i"), [Y("conf.Level"), ("raw", "conf.Level += a + 1")]), Y("conf.Level + 1")]))
    B.append(("loop_yield_field", [("raw", "conf.Box.V = a"), ("for", ("decl", "i", "0"), "i < n", ("inc", "i"), [Y("conf.Box.V"), ("raw", "conf.Box.V ^= b + i")]), Y("conf.Box.V")]))
    B.append(("loop_yield_const", [("for", ("decl", "i", "0"), "i < n", ("inc", "i"), [Y("conf.Max"), ("eff", 1)]), Y("conf.Max + a")]))
    B.append(("var_set_before_yield_in_if", [("raw", "conf.Level = a"), ("if", "g1", [("raw", "conf.Level = b")], None), ("if", "g2", [Y("conf.Level"), ("raw", "conf.Level++")], [Y("conf.Max")]), Y("conf.Level")]))
    return B


def build_c01_corpus(ctx, corp, n_exh, n_sampled, weights=None, max_nodes=12, sample_seed_off=0, transform=None):
    transform = transform or (lambda body, rng, ctr: body)
    rng = random.Random(ctx.seed * 7919 + sample_seed_off)
    pid = 0
    # bounded-exhaustive part
    exh = gen.exhaustive(ctx.q(3, 4))
    rng2 = random.Random(ctx.seed)
    if len(exh) > n_exh:
        keep = [l for l in exh if sum(1 for _ in l) and gen_size(l) <= 2]
        rest = [l for l in exh if gen_size(l) > 2]
        rng2.shuffle(rest)
        exh_sel = keep + rest[:max(0, n_exh - len(keep))]
    else:
        exh_sel = exh
    for lst in exh_sel:
        ctr = gen.Ctr()
        body = transform(gen.concretize(lst, ctr, []), rng, ctr)
        p = gen.Program("e%04d" % pid, body, named_result=(pid % 2 == 0), family="exh")
        pid += 1
        corp.add(p)
    for body in gen.sampled(rng, n_sampled, max_nodes, weights):
        body = transform(body, rng, gen.Ctr())
        p = gen.Program("s%04d" % pid, body, helpers=C01_HELPERS if "H2(" in repr(body) else "", named_result=(pid % 2 == 0), family="smp")
        # the same grammar in every generator form: function, function literal, value / pointer
        # method, generic function, nested literal generator reached through YieldFrom
        p.form = gen.FORMS[pid % len(gen.FORMS)]
        p.tags.add("form:" + p.form)
        pid += 1
        corp.add(p)
    for name, body in directed_c01():
        helpers = C01_HELPERS if "H2(" in repr(body) else ""
        body = transform(body, rng, gen.Ctr())
        p = gen.Program("d_%s" % name, body, helpers=helpers, named_result=False, family="dir", tags={"directed:" + name})
        corp.add(p)
    for name, body in pkgvar_bodies():
        body = transform(body, rng, gen.Ctr())
        p = gen.Program("pv_%s" % name, body, helpers="// EXTRA-IMPORTS: verifws/conf\n", named_result=True, family="pkv", tags={"pkgvar:" + name})
        corp.add(p)
    return {"exhaustive_total": len(exh), "exhaustive_used": len(exh_sel), "sampled": n_sampled, "directed": len(directed_c01())}


def gen_size(lst):
    n = 0
    for s in lst:
        n += 1
        for part in s[1:]:
            if isinstance(part, list):
                n += gen_size(part)
    return n


def hist(vals):
    h = {}
    for v in vals:
        v = re.sub(r" in: .*", "", v, flags=re.S)[:80]
        h[v] = h.get(v, 0) + 1
    return h


def corpus_run(ctx, fam, build, K, extra_adv, nlo=-1, nhi=3, stage1=False, second_pass=None, ref_tree="src", unbuildable_is_violation=False, batch=None, surviving_stub_is_violation=False):
    """generate, compile, quarantine, run the engine on the pairs, replay; returns a dict"""
    corp = corpus.Corpus(ctx, fam)
    corp.driver_bin = runner.build_driver(ctx) if not getattr(ctx, "driver_bin", None) else ctx.driver_bin
    ctx.driver_bin = corp.driver_bin
    corp.stage1 = stage1
    counts = build(corp)
    corp.write(K, extra_adv, nlo, nhi, batch=batch)
    corp.compile()
    front_end = []
    if stage1:
        # the unoptimised stage still imports the co package it no longer uses (import clean-up is
        # stage 2's job): drop exactly that import, then require the unoptimised world to build
        files = []
        for d in corp.batches:
            ud = os.path.join(ctx.ws, "unopt", d)
            if os.path.isdir(ud):
                files += [os.path.join(ud, f) for f in os.listdir(ud) if f.endswith(".go")]
        for i in range(0, len(files), 200):
            runner.sh([runner.build_engine(), "fiximports"] + files[i:i + 200])
        corp.quarantine_unbuildable(("unopt",))
        before = dict(corp.unbuildable)
        corp.quarantine_unbuildable(("out",))
        for pid, msg in corp.unbuildable.items():
            if pid not in before:
                front_end.append((pid, msg))
    else:
        corp.quarantine_unbuildable(("out",))
        if unbuildable_is_violation:
            front_end = list(corp.unbuildable.items())
    if stage1:
        for pid, msg in corp.missing.items():
            if os.path.exists(os.path.join(ctx.ws, "unopt", corp.where.get(pid, "") or "", "gen_%s.go" % pid)) or any(
                    os.path.exists(os.path.join(ctx.ws, "unopt", d, "gen_%s.go" % pid)) for d in corp.batches):
                front_end.append((pid, "the optimising stage wrote no file although the unoptimised stage did: " + msg))
    if surviving_stub_is_violation:
        # C12: generated code that still calls the no-op stubs co.Yield / co.YieldFrom has silently
        # dropped a yield, whatever else it does (front-end observation, not a solver verdict)
        stub = re.compile(r"(?<![\w.])(?:\w+\.)?Yield(?:From)?(?:\[[^\]]*\])?\(")
        for pid, d in list(corp.where.items()):
            fp = os.path.join(ctx.ws, "out", d, "gen_%s.go" % pid)
            if not os.path.exists(fp):
                continue
            code = "\n".join(l for l in open(fp).read().splitlines() if not l.lstrip().startswith("//"))
            if stub.search(code):
                front_end.append((pid, "generated code still calls the no-op stub: " + stub.search(code).group(0)))
    # side-effect imports and compiler directives of the source file must survive (C13 names both;
    # a front-end observation on the output text, applied to every corpus file that has any)
    for pid, d in list(corp.where.items()):
        sp, op = os.path.join(ctx.ws, "src", d, "gen_%s.go" % pid), os.path.join(ctx.ws, "out", d, "gen_%s.go" % pid)
        if not (os.path.exists(sp) and os.path.exists(op)):
            continue
        st, ot = open(sp).read(), open(op).read()
        for imp in re.findall(r'^\s*_ "([^"]+)"', st, flags=re.M):
            if not re.search(r'^\s*_ "%s"' % re.escape(imp), ot, flags=re.M):
                front_end.append((pid, "side-effect import %s of the source is missing in the generated file" % imp))
        src_dirs = re.findall(r"^//go:(?!build|generate)\w+.*$", st, flags=re.M)
        out_dirs = re.findall(r"^//go:(?!build|generate)\w+.*$", ot, flags=re.M)
        for dct in set(src_dirs):
            if out_dirs.count(dct) < src_dirs.count(dct):
                front_end.append((pid, "compiler directive %r of the source is missing in the generated file" % dct))
    # one report per program: the first observation, the number of further ones appended
    merged = {}
    for pid, msg in front_end:
        merged.setdefault(pid, []).append(msg)
    front_end = [(pid, msgs[0] + ("" if len(msgs) == 1 else " (+%d more)" % (len(msgs) - 1))) for pid, msgs in merged.items()]
    pairs = corp.pairs(ref_tree=ref_tree)
    if not pairs:
        raise CheckError("no corpus package survived compilation")
    args = engine_common(ctx)
    if ref_tree != "src":
        args = args + ["-refplain"]
    res = runner.run_engine(ctx, pairs + args, name="result_" + fam)
    new, known, replayed, mism, details = corpus.process_two_world(ctx, corp, res, ref_tree=ref_tree)
    # build clause (C07): optimised output does not type-check although the unoptimised stage does
    fe_details = []
    for pid, msg in front_end:
        prog = corp.programs.get(pid)
        tags = prog.tags if prog else set()
        f = {"kind": "front-end-refutation", "msg": msg, "model": {}, "logs": {}}
        k = runner.match_known(ctx.pid, "Drive_G" + pid, f, tags)
        if k:
            known.append({"finding": k["finding_id"], "driver": "G" + pid, "tags": sorted(tags)})
            print("KNOWN-FINDING: property=%s %s [%s] program=G%s" % (ctx.pid, k["what"], k["finding_id"], pid))
        else:
            new += 1
            path = runner.save_replay(ctx, "fe" + pid, [], {"property": ctx.pid, "program": "G" + pid, "kind": "front-end-refutation (not a solver verdict)",
                                                           "what": "the generated output does not type-check although its reference (source / unoptimised stage) does", "error": msg,
                                                           "source": prog.source(K, extra_adv, nlo, nhi) if prog else ""})
            print("VIOLATION property=%s replay=%s" % (ctx.pid, path))
        fe_details.append({"program": "G" + pid, "error": msg, "known": bool(k), "tags": sorted(tags)})
    second = None
    if second_pass:
        # single-world harness drivers inside the generated packages (e.g. YieldFrom form == range form)
        hargs = []
        for i in range(0, len(pairs), 2):
            hargs += ["-harness", pairs[i + 1].split("=")[1]]
        res2 = runner.run_engine(ctx, hargs + ["-drivers", second_pass] + engine_common(ctx), name="result2_" + fam)
        for d in res2["drivers"]:
            if d["status"] != "violated":
                continue
            pkg_rel = "out/" + d["name"].rsplit(".", 1)[0].split("/")[-1]
            a, b, c, e, f = process_harness(ctx, {"drivers": [d]}, pkg_rel, max_replay_per_driver=1)
            new += a; known += b; replayed += c; mism += e; details += f
        agg2 = runner.summarize_engine(res2)
        second = {k: agg2[k] for k in ("drivers", "drivers_holds", "drivers_violated", "drivers_undecided", "paths", "queries", "solver_time_s", "undecided_by_reason")}
    return {"corp": corp, "res": res, "new": new, "known": known, "replayed": replayed, "mism": mism, "details": details,
            "fe_details": fe_details, "counts": counts, "second": second, "ctx": ctx}


def corpus_check(ctx, fam, build, K, extra_adv, level_extra, assumptions, floors, nlo=-1, nhi=3, stage1=False, second_pass=None, ref_tree="src",
                 unbuildable_is_violation=False, batch=None, more_runs=(), surviving_stub_is_violation=False, extra_violations=0):
    runs = [corpus_run(ctx, fam, build, K, extra_adv, nlo, nhi, stage1, second_pass, ref_tree, unbuildable_is_violation, batch, surviving_stub_is_violation)] + list(more_runs)
    main = runs[0]
    res = main["res"]
    new, known, replayed, mism, details, fe_details = extra_violations, [], 0, 0, [], []
    decided_tags, programs, compiled, rejected, unbuildable = {}, 0, 0, {}, {}
    sv_mism_extra, sv_extra = 0, 0
    ratios = []
    for i, r in enumerate(runs):
        # share of this run's programs that reached a verdict (rejected / unbuildable / undecided ones do not)
        decided_pids = {r["corp"].pid_of_driver(d["name"]) for d in r["res"]["drivers"] if d["status"] in ("holds", "violated")}
        ratios.append(round(len(decided_pids & set(r["corp"].programs)) / max(1, len(r["corp"].programs)), 3))
        if i > 0:
            res["drivers"] += r["res"]["drivers"]
            for k, v in r["res"].get("functions_encoded", {}).items():
                res["functions_encoded"][k] = res["functions_encoded"].get(k, 0) + v
            res.setdefault("skipped_pairs", {}).update(r["res"].get("skipped_pairs") or {})
            for d in r["res"]["drivers"]:
                d["_extra"] = True
            # self-validation of the extra run happens in its own workspace
            a, b = self_validate(r["ctx"], r["res"], impl_tree="out", order_free=r"Gr_(call)?map")
            sv_extra += a
            sv_mism_extra += b
        new += r["new"]; known += r["known"]; replayed += r["replayed"]; mism += r["mism"]; details += r["details"]; fe_details += r["fe_details"]
        corp = r["corp"]
        programs += len(corp.programs); compiled += len(corp.where)
        rejected.update(corp.rejected); unbuildable.update(corp.unbuildable)
        for d in r["res"]["drivers"]:
            p = corp.programs.get(corp.pid_of_driver(d["name"]))
            if p and d["status"] != "undecided":
                for t in p.tags:
                    decided_tags[t] = decided_tags.get(t, 0) + 1
    mism += sv_mism_extra
    tw_n, tw_m = (0, 0)
    if ref_tree == "src":
        tw_n, tw_m = corpus.twin_validate(ctx, main["corp"], main["res"])
        mism += tw_m
    extra = {
        "programs": programs,
        "programs_examined": programs,
        "programs_compiled": compiled,
        "programs_rejected_by_compiler": len(rejected),
        "programs_output_unbuildable": len(unbuildable),
        "programs_without_output_file": sum(len(r["corp"].missing) for r in runs),
        "decided_ratio_per_run": ratios,
        "decided_ratio_min": min(ratios),
        "rejected_samples": dict(list(rejected.items())[:5]),
        "rejected_by_message": hist(rejected.values()),
        "unbuildable_by_message": hist(unbuildable.values()),
        "unbuildable_samples": dict(list(unbuildable.items())[:5]),
        "front_end_refutations": fe_details,
        "corpus": main["counts"],
        "more_corpora": [r["counts"] for r in runs[1:]],
        "compile_s": round(sum(r["corp"].compile_s for r in runs), 1),
        "feature_tags_decided": dict(sorted(decided_tags.items())),
        "native_cross_checked_paths_extra_runs": sv_extra,
        "reference_twins_written": len(main["corp"].twin_where),
        "reference_logs_cross_checked_against_native_twin": tw_n,
        "details": details[:30],
    }
    if main["second"]:
        extra["second_pass"] = main["second"]
    extra.update(level_extra)
    return finish(ctx, res, "translation_validation", new, known, replayed, mism, extra, assumptions, floors,
                  sv={"impl_tree": "out", "order_free": r"Gr_(call)?map"})


REF_ASSUMPTION = "reference = the source file itself executed from its SSA with the coroutine semantics of DESIGN §2 for Yield/YieldFrom/MoveNext/Current/range-over-Iter (engine intrinsics, no code shared with rewriter or seq)"
PROGRAM_DIM = "the program dimension is generated (bounded-exhaustive + seeded sample + directed shapes), not symbolic; inputs/guards are SMT variables"


def plan_C01(ctx):
    K = ctx.q(6, 12)

    def build(corp):
        return build_c01_corpus(ctx, corp, ctx.q(250, 2500), ctx.q(500, 2400))

    extra = {
        "bounds": {"advances_K": K, "loop_bound_n": "[-1,3]", "ints": "64-bit symbolic a, b; guards g1..g3 symbolic",
                   "outside": "program shapes not generated; more than K yields; n outside [-1,3]; labelled control flow (C12); Go >= 1.22 per-iteration loop variables"},
        "explanation": "per program one driver; every feasible path of source-under-coroutine-semantics followed by compiled-code+seq is executed from SSA and the two event logs are compared by one SMT query",
    }
    return corpus_check(ctx, "c01", build, K, 0, extra, [REF_ASSUMPTION, PROGRAM_DIM],
                        floors={"drivers_holds": ctx.q(100, 1000), "decided_ratio_min": 0.95})


CLAIMED["C01"] = plan_C01


def plan_C02(ctx):
    K = ctx.q(6, 12)

    def build(corp):
        counts = build_c01_corpus(ctx, corp, ctx.q(150, 1500), ctx.q(450, 2000), sample_seed_off=2, transform=gen.effectify)
        xs = gen.exprform_programs() + gen.funcvalue_programs() + gen.unit_programs()
        for p in xs:
            corp.add(p)
        counts["expression_forms"] = len(xs)
        # delegation shapes (the operand of YieldFrom is an evaluation point too)
        nd = 0
        for name, body in directed_c05():
            corp.add(gen.Program("dy_%s" % name, body, helpers=gen.C05_HELPERS, named_result=True, family="dyf", tags={"directed:" + name}))
            nd += 1
        counts["delegation_shapes"] = nd
        # generators that start with argument checks: the check runs at the first advance, not at the call
        G1 = ("if", "rt.Eff(901, n > 100)", [("raw", "panic(\"bad argument\")")], None)
        G2 = ("if", "rt.Eff(902, a == b && n > 200)", [("raw", "panic(a)")], None)
        ng = 0
        for name, body in [("guard1", [G1, ("yield", "a + 1"), ("eff", 1), ("yield", "b + 2")]),
                           ("guard2", [G1, G2, ("yield", "a + 1")]),
                           ("guard_loop", [G2, ("for", ("decl", "i", "0"), "i < n", ("inc", "i"), [("yield", "i + a")]), ("eff", 2)]),
                           ("guard_then_decl", [G1, ("decl", "x", "rt.Eff(903, a + 1)"), ("yield", "x"), ("yield", "x + b")]),
                           ("guard_only_then_delegate", [G1, ("yieldfrom", "H2(a)")])]:
            for form in ("func", "method", "lit", "generic"):
                p = gen.Program("gd_%s_%s" % (name, form), body, helpers=gen.C05_HELPERS if "H2(" in repr(body) else "", named_result=True, family="grd", tags={"directed:" + name})
                p.form = form
                corp.add(p)
                ng += 1
        counts["argument_check_prologues"] = ng
        # range over a buffered channel with observers (len(ch), a second receiver) between the
        # receives: each advance performs exactly the receives of the source
        nch = 0
        for p in gen.c04_programs(strlens=()):
            if p.family == "rng_chan" and "range-var-captured-across-iterations" not in p.tags:  # F7 hosts are C03/C04's subject
                corp.add(p)
                nch += 1
        counts["channel_range_programs"] = nch
        return counts

    extra = {
        "bounds": {"advances_K": K, "extra_advances_after_exhaustion": 2, "loop_bound_n": "[-1,3]",
                   "observables": "CREATED marker between the generator call and the first advance, ADV_BEGIN/ADV_END around every advance, rt.Eff(id, e) around yielded expressions, conditions, tags, initialisers; effect statements before/after yields",
                   "outside": "program shapes not generated; more than K advances; consumers that touch generator state between advances (C03/C06/C14)"},
        "explanation": "flat equality of the marker+effect+yield log of source-under-coroutine-semantics and compiled code; because the engine is deterministic and the log contains the advance markers, equality of the full log implies equality at every truncation point k <= K",
    }
    return corpus_check(ctx, "c02", build, K, 2, extra, [REF_ASSUMPTION, PROGRAM_DIM],
                        floors={"drivers_holds": ctx.q(100, 1000), "decided_ratio_min": 0.95})


CLAIMED["C02"] = plan_C02


def plan_C18(ctx):
    K = ctx.q(6, 10)

    def build(corp):
        rng = random.Random(ctx.seed * 31 + 18)
        n = 0
        bodies = []
        exh = gen.exhaustive(3)
        rng.shuffle(exh)
        for lst in exh[:ctx.q(100, 137)]:
            ctr = gen.Ctr()
            bodies.append(gen.concretize(lst, ctr, []))
        bodies += gen.sampled(rng, ctx.q(400, 1600), 10)
        for name, body in directed_c01():
            bodies.append(body)
        for body in bodies:
            import copy
            body = copy.deepcopy(body)
            body = gen.inject_panic(body, rng, gen.Ctr())
            helpers = ""
            if "H3(" in repr(body) or "PT(" in repr(body) or "PS(" in repr(body) or "PN(" in repr(body):
                helpers += gen.PANIC_HELPERS
            if "H2(" in repr(body):
                helpers += C01_HELPERS
            p = gen.Program("p%04d" % n, body, helpers=helpers, named_result=(n % 2 == 0), family="pan")
            p.driver = gen.panic_driver(p.name, K)
            p.twin_driver = gen.panic_driver("T" + p.name, K)
            p.twin_key = "c18"
            n += 1
            corp.add(p)
        return {"programs_with_one_panic_site": n, "panic_sites": ["panic(symbolic int)", "integer division by a symbolic zero", "index out of range (symbolic index)", "nil map store", "nil dereference", "panic(string)", "panic inside a delegate (YieldFrom)", "panic(nil) and panic(nil error) - go 1.20 sources: recover() returns nil, the panic still unwinds", "panic(nil) inside a delegate", "panicking range operands"]}

    extra = {
        "bounds": {"advances_K": K, "loop_bound_n": "[-1,3]", "stop": "the driver stops after the first panic (iterator state after a panic is unspecified)",
                   "outside": "program shapes not generated; behaviour after a panic; panics raised through Send"},
        "explanation": "every advance is wrapped in defer/recover; the log records which advance panicked and with which value (run-time panics by class); flat log equality source-under-coroutine-semantics vs compiled code",
    }
    return corpus_check(ctx, "c18", build, K, 0, extra, [REF_ASSUMPTION, PROGRAM_DIM, "run-time panics are compared by class (nil-deref, index, div-zero, nil-map, type-assert), explicit panic values structurally"],
                        floors={"drivers_holds": ctx.q(100, 800), "decided_ratio_min": 0.95})


CLAIMED["C18"] = plan_C18


def directed_c05():
    Y = lambda e: ("yield", e)
    YF = lambda e: ("yieldfrom", e)
    E = lambda n: ("eff", n)
    D = []
    D.append(("chain", [Y("a"), YF("H2(a)"), Y("b"), YF("H1(b)"), E(1)]))
    D.append(("empty_delegate", [E(1), YF("H3(a)"), E(2), Y("a + 1")]))
    D.append(("recursion", [YF("R1(n, a)"), Y("b")]))
    D.append(("infinite_delegate", [Y("a"), YF("R2(b)"), Y("a + 1")]))
    D.append(("partially_consumed", [("raw", "it := H1(a)\nit.MoveNext()\nrt.Emit(44, it.Current())"), YF("it"), Y("b")]))
    D.append(("exhausted_before", [("raw", "it := H2(a)\nfor it.MoveNext() {\n}"), YF("it"), Y("b")]))
    D.append(("in_loop", [("for", ("decl", "i", "0"), "i < n", ("inc", "i"), [YF("H2(i)"), ("if", "g1", [("continue",)], None), Y("i + 100")])]))
    D.append(("in_switch", [("switch", None, "a&1", [("0", [YF("H2(a)")])], [YF("H1(a)")]), Y("b")]))
    D.append(("for_post", [("decl", "i", "0"), ("for", None, "i < n", YF("H2(i)"), [("inc", "i"), Y("i + 100")])]))
    D.append(("for_init", [("decl", "i", "0"), ("for", YF("H2(a)"), "i < n", ("inc", "i"), [Y("i + 100")])]))
    D.append(("arg_once", [YF("rt.Eff(801, H2(rt.Eff(802, a)))"), E(1)]))
    D.append(("nested_delegation", [YF("H4(a)"), YF("H4(b)")]))
    D.append(("only_yieldfrom_eff_operand", [YF("rt.Eff(801, H2(a))")]))
    D.append(("only_yieldfrom_plain_func_operand", [YF("MK(a)")]))
    D.append(("only_yieldfrom_recursive", [YF("R1(n, a)")]))
    D.append(("fallthrough_into_delegating_clause", [("raw", "switch a & 1 {\ncase 0:\n\trt.Emit(rt.EFF, 760)\n\tfallthrough\ncase 1:\n\tYieldFrom(H2(a))\n}"), Y("b")]))
    D.append(("else_block_trivial_if_then_delegation", [("if", "g1", [Y("a + 1")], [("if", "g2", [("eff", 762)], None), YF("H2(b)"), Y("b + 2")]), Y("a + 3")]))
    D.append(("else_block_trivial_if_then_shared_delegate", [("raw", "it := H1(a)"), ("if", "g1", [YF("it")], [("if", "g2", [("eff", 763)], None), ("raw", "it.MoveNext()"), YF("it")]), YF("it"), Y("b")]))
    D.append(("continue_in_switch_yieldfrom_post", [("decl", "i", "0"), ("for", None, "i < n", ("yieldfrom", "H2(i)"), [("inc", "i"), ("switch", None, "i & 1", [("1", [("eff", 764), ("continue",)])], None), Y("i + 1")]), Y("a")]))
    D.append(("continue_in_tswitch_yieldfrom_post", [("raw", "var t any = a"), ("decl", "i", "0"), ("for", None, "i < n", ("yieldfrom", "H2(i)"), [("inc", "i"), ("tswitch", None, "t", [("int", [("if", "g1", [("continue",)], None)])], None), Y("i + 1")]), Y("b")]))
    D.append(("switch_clause_ends_in_if_break_behind_delegation", [("for", ("decl", "i", "0"), "i < n + 1", ("inc", "i"), [("switch", None, "i & 1", [("0", [("if", "g1", [YF("H2(i)"), ("break",)], None)])], [("eff", 765)]), Y("i + 1")]), Y("a")]))
    D.append(("switch_clause_ends_in_if_else_break_behind_delegation_no_loop", [("switch", None, "a & 1", [("0", [("eff", 766), ("if", "g1", [YF("H2(a)"), ("if", "g2", [("break",)], None), Y("a + 1")], [Y("b")])])], None), Y("b + 99")]))
    D.append(("breakable_switch_last_in_if_body_delegation", [("if", "g1", [("switch", None, "a & 1", [("0", [YF("H2(a)"), ("if", "g2", [("break",)], None), Y("a + 2")])], None)], None), YF("H2(b)"), Y("b + 3")]))
    D.append(("closure_in_native_loop_then_continue_before_delegation", [("decl", "t", "0"), ("for", ("decl", "i", "0"), "i < n + 1", ("inc", "i"), [("raw", "f := func() int { return i + a }"), ("if", "f()&1 == 0", [("continue",)], None), ("assign", "t", "t + f()")]), YF("H2(t)"), Y("b")]))
    # a break behind a delegation inside a type-switch clause leaves the type switch only
    D.append(("tswitch_break_behind_delegation_in_loop", [("raw", "var t any = a\nif g3 {\n\tt = \"s\"\n}"), ("for", ("decl", "i", "0"), "i < n + 1", ("inc", "i"), [("tswitch", None, "t", [("int", [YF("H2(i)"), ("if", "g1", [("break",)], None), Y("i + 767")])], [YF("H1(i)"), ("if", "g2", [("break",)], None), ("eff", 768)]), Y("i + 1")]), YF("H2(b)"), Y("a")]))
    D.append(("tswitch_bound_break_behind_delegation_no_loop", [("raw", "var t any = a\nif g3 {\n\tt = \"s\"\n}"), ("tswitch", "tv", "t", [("int", [YF("H2(tv)"), ("if", "g1", [("break",)], None), Y("tv + 769")])], [("raw", "_ = tv"), Y("b + 770"), ("if", "g2", [("break",)], None), YF("H1(b)")]), YF("H2(b)"), Y("b + 771")]))
    # operands that are neither calls nor identifiers, with an effect: evaluated exactly once
    D.append(("operand_index_with_effect", [("raw", "srcs := []Iter[int]{H2(a), H1(b), H2(b), H1(a)}\nk := 0\nnext := func() int {\n\tk++\n\trt.Emit(rt.EFF, 780+k)\n\treturn k - 1\n}"), YF("srcs[next()]"), Y("k + 1"), YF("srcs[next()]"), Y("k + 2")]))
    D.append(("operand_receive", [("raw", "ch := make(chan Iter[int], 3)\nch <- H2(a)\nch <- H1(b)\nch <- H2(b)"), YF("<-ch"), Y("len(ch) + 781"), ("for", ("decl", "i", "0"), "i < n && len(ch) > 0", YF("<-ch"), [("inc", "i"), Y("i + 782")])]))
    D.append(("operand_field_of_call_result", [("raw", "type holder struct{ it Iter[int] }\nk := 0\npop := func() holder {\n\tk++\n\trt.Emit(rt.EFF, 783+k)\n\treturn holder{H2(a + k)}\n}"), YF("pop().it"), Y("k + 3")]))
    D.append(("same_iter_twice", [("raw", "it := H1(a)"), YF("it"), YF("it"), Y("b")]))
    return D


def plan_C05(ctx):
    K = ctx.q(8, 16)

    def build(corp):
        rng = random.Random(ctx.seed * 131 + 5)
        smp = gen.YFSampler(rng)
        bodies = [(name, body) for name, body in directed_c05()]
        tries = 0
        want = ctx.q(320, 1500)
        while len(bodies) < want + len(directed_c05()) and tries < want * 30:
            tries += 1
            ctr = gen.Ctr()
            budget = [rng.randint(3, 9)]
            body = smp.body(budget, ctr, [], False, False, 0, [])
            if "yieldfrom" not in repr(body):
                continue
            bodies.append((None, body))
        n = 0
        for name, body in bodies:
            pid = ("d_%s" % name) if name else ("y%04d" % n)
            n += 1
            p = gen.Program(pid, body, helpers=gen.C05_HELPERS, named_result=(n % 2 == 0) or bool(name and name.startswith("only_")), family="yf", tags={"directed:" + name} if name else None)
            # range-form twin + equality driver (observational identity with 'for v := range it { Yield(v) }')
            twin = gen.to_range_form(body, gen.Ctr())
            tl = ["func %sR%s (_ Iter[int]) {" % (p.name, gen.SIG)] + gen.p_stmts(twin, 1) + ["\treturn", "}", ""]
            p.helpers = gen.C05_HELPERS + "\n" + "\n".join(tl) + "\n" + gen.eq_driver(p.name, p.name + "R", K)
            p.twin_key = "c05"
            corp.add(p)
        return {"delegating_programs": n, "directed": len(directed_c05()), "delegates": gen.DELEGATES,
                "forms": ["statement position", "inside loops / switch cases", "for-post and for-init", "delegate advanced by hand before delegation", "argument wrapped in Eff", "recursion R1(n, a) with symbolic depth n <= 3", "infinite delegate"]}

    extra = {
        "bounds": {"advances_K": K, "recursion_depth": "n in [-1,3]", "outside": "program shapes not generated; deeper recursion; more than K advances"},
        "explanation": "(i) source-under-coroutine-semantics vs compiled code, flat log with advance markers and delegate-side effects (one delegate step per consumer step, argument evaluated once); (ii) second pass on the generated package: compiled YieldFrom form vs compiled range form of the same body must produce equal logs (AssertSameLogs)",
    }
    rc = corpus_check(ctx, "c05", build, K, 1, extra, [REF_ASSUMPTION, PROGRAM_DIM], floors={"drivers_holds": ctx.q(100, 800), "decided_ratio_min": 0.95}, second_pass=r"^DriveEq_")
    return rc


CLAIMED["C05"] = plan_C05


def directed_c03():
    Y = lambda e: ("yield", e)
    D = []
    D.append(("shadow_block", [("decl", "x", "a + 1"), ("block", [("decl", "x", "b + 2"), Y("x + 3"), ("assign", "x", "x + 4"), Y("x + 5")]), Y("x + 6")]))
    D.append(("for_post_scope", [("decl", "x", "a"), ("for", ("decl", "c", "0"), "c < n", ("yield", "x + c + 100"), [("decl", "x", "b + 1"), Y("x + 2"), ("inc", "c"), ("assign", "x", "x + 1"), ("effv", 5, "x")]), Y("x + 7")]))
    D.append(("switch_init_conflict", [("decl", "z", "a + 1"), ("switch", ("decl", "z", "(b + 2) & 3"), "z", [("0", [Y("z + 3")]), ("1", [("decl", "z", "a + 4"), Y("z + 5")])], [Y("z + 6")]), Y("z + 7")]))
    D.append(("closure_sees_update", [("decl", "x", "a"), ("raw", "get := func() int { return x }"), Y("get() + 1"), ("assign", "x", "x + b"), Y("get() + 2"), ("raw", "set := func(v int) { x = v }\nset(b + 3)"), Y("x + 4")]))
    D.append(("closure_in_loop", [("decl", "s", "0"), ("for", ("decl", "i", "0"), "i < n", ("inc", "i"), [("raw", "add := func() { s += i + a }"), Y("s + 1"), ("raw", "add()"), Y("s + 2")]), Y("s + 3")]))
    D.append(("range_shadow", [("decl", "x", "a + 1"), ("range", "x", "y", ":=", "[]int{a, b}", [Y("x + y + 2"), ("assign", "y", "y + x"), Y("y + 3")]), Y("x + 4")]))
    D.append(("tswitch_scope", [("decl", "v", "a + 1"), ("raw", "var t any = b\nif g1 {\n\tt = \"s\"\n}"), ("tswitch", "v", "t", [("int", [Y("v + 2"), ("assign", "v", "v + 1"), Y("v + 3")]), ("string", [Y("len(v) + 4")])], None), Y("v + 5")]))
    D.append(("yield_post_body_shadows_trivial_end", [("decl", "x", "a"), ("decl", "c", "0"), ("for", None, "c < n", ("yield", "x + 100"), [("inc", "c"), ("decl", "x", "b + 1"), ("effv", 5, "x")]), Y("x + 7")]))
    D.append(("yield_post_body_shadows_yield_then_trivial", [("decl", "x", "a"), ("decl", "c", "0"), ("for", None, "c < n", ("yield", "x + 100"), [("inc", "c"), ("decl", "x", "b + 1"), Y("x + 2"), ("effv", 5, "x")]), Y("x + 7")]))
    D.append(("yieldfrom_post_body_shadows", [("decl", "x", "a"), ("decl", "c", "0"), ("for", None, "c < n", ("yieldfrom", "H2(x)"), [("inc", "c"), ("decl", "x", "b + 1"), ("effv", 5, "x")]), Y("x + 7")]))
    D.append(("nested_switch_init_first_in_clause", [("decl", "x", "a + 1"), ("raw", "get := func() int { return x }"), ("switch", None, "b & 1", [("0", [("switch", ("decl", "x", "(a + 2) & 3"), "x", [("0", [Y("x + 3")])], [Y("x + 4")]), Y("x + 5"), Y("get() + 6")])], [Y("x + 7")]), Y("x + 8")]))
    D.append(("nested_tswitch_init_first_in_clause", [("decl", "x", "a + 1"), ("raw", "var t any = b"), ("switch", None, "b & 1", [("0", [("raw", "switch x := a + 2; v := t.(type) {\ncase int:\n\tYield(v + x + 3)\ndefault:\n\tYield(x + 4)\n}"), Y("x + 5")])], [Y("x + 7")]), Y("x + 8")]))
    D.append(("switch_init_no_default_then_use", [("decl", "x", "a + 1"), ("switch", ("decl", "x", "(a + 2) & 3"), "x", [("1", [Y("x + 3")])], None), Y("x + 5")]))
    D.append(("multi_define_reassigns_after_yield", [("decl", "x", "a + 1"), ("raw", "get := func() int { return x }"), Y("get()"), ("raw", "x, y := b+2, a+3"), Y("x + y"), Y("get() + 5")]))
    D.append(("multi_define_reassigns_in_thunk_block", [("decl", "x", "a + 1"), Y("x"), ("if", "g1", [("raw", "x, z := b+2, 7\n_ = z"), Y("x + 1")], None), Y("x + 2")]))
    D.append(("multi_define_reassigns_before_yield", [("decl", "x", "a + 1"), ("raw", "x, y := b+2, a+3"), Y("x + y"), Y("x + 5")]))
    D.append(("multi_define_in_case_clause_after_yield", [("switch", None, "b & 1", [("0", [("decl", "x", "a + 1"), ("raw", "get := func() int { return x }"), Y("get()"), ("raw", "x, y := b+2, a+3"), Y("x + y"), Y("get() + 5")])], [Y("a")]), Y("b + 9")]))
    D.append(("multi_define_in_tswitch_clause_after_yield", [("raw", "var t any = b"), ("tswitch", "v", "t", [("int", [("decl", "x", "a + 1"), ("raw", "p := &x"), Y("v + x"), ("raw", "x, w := v+2, a+3"), Y("x + w"), Y("*p + 5")])], None), Y("b + 9")]))
    D.append(("multi_define_in_default_clause_after_yield", [("switch", None, "b & 1", [("0", [Y("a")])], [("decl", "x", "a + 1"), ("raw", "set := func(v int) { x = v }"), Y("x + 1"), ("raw", "x, y := b+2, a+3"), ("raw", "set(x + y)"), Y("x + 2")]), Y("b + 9")]))
    D.append(("multi_define_in_if_and_loop_after_yield", [("decl", "x", "a + 1"), ("raw", "get := func() int { return x }"), ("for", ("decl", "i", "0"), "i < n", ("inc", "i"), [Y("get() + i"), ("raw", "x, y := x+i, i"), Y("x + y")]), ("if", "g1", [Y("x"), ("raw", "x, z := b, 1"), Y("x + z + get()")], None), Y("get() + 9")]))
    # range over an iterator inside a generator: the body re-declares the loop variable
    D.append(("iter_range_body_redeclares_loopvar", [("raw", "for v := range H2(a) {\n\tget := func() int { return v }\n\tw, v := v+1, v*10\n\tYield(v + w)\n\tYield(get())\n}"), Y("b")]))
    D.append(("iter_range_body_shadows_loopvar_first", [("raw", "for v := range H2(a) {\n\tv := v + b\n\tYield(v)\n}"), Y("b")]))
    # a multi-value ':=' that re-assigns a name declared in the function / clause header
    D.append(("multi_define_reassigns_parameter", [("raw", "get := func() int { return a }"), Y("get() + 1"), ("raw", "a, z := a+10, b+1"), Y("a + z"), Y("get() + 2"), ("raw", "set := func(v int) { a = v }\nset(b + 3)"), Y("a + 4")]))
    D.append(("multi_define_reassigns_parameter_before_yield", [("raw", "p := &a"), ("raw", "a, z := b+10, 1"), Y("a + z"), Y("*p + 2")]))
    D.append(("multi_define_reassigns_tswitch_guard", [("raw", "var t any = b"), ("tswitch", "v", "t", [("int", [("raw", "p := &v"), Y("v + 1"), ("raw", "v, w := v+a, 2"), Y("v + w"), Y("*p + 3")])], None), Y("b + 9")]))
    D.append(("multi_define_reassigns_loop_var_and_param", [("for", ("decl", "i", "0"), "i < n", ("inc", "i"), [("raw", "get := func() int { return b }"), Y("get() + i"), ("raw", "b, k := b+i+1, i"), Y("b + k"), Y("get() + 5")]), Y("b + 6")]))
    # condition-less loops with ':=' initialisers: the variables stay local to the loop
    D.append(("for_nocond_shadow_then_outer_use", [("decl", "x", "a + 100"), ("for", ("decl", "x", "0"), None, ("inc", "x"), [("if", "x >= n", [("break",)], None), Y("x + 1")]), Y("x + 2")]))
    D.append(("for_nocond_shadow_param", [("for", ("decl", "a", "0"), None, ("inc", "a"), [("if", "a >= n", [("break",)], None), Y("a + 1")]), Y("a + 2")]))
    D.append(("for_nocond_two_var_init_captured", [("decl", "x", "a + 100"), ("raw", "get := func() int { return x }"), ("for", ("raw", "x, j := 0, n+1"), None, ("raw", "x, j = x+1, j-1"), [("if", "x >= j", [("break",)], None), Y("x + get()")]), Y("get() + 2")]))
    D.append(("for_nocond_native_shadow", [("decl", "x", "a + 7"), ("decl", "t", "0"), ("for", ("decl", "x", "0"), None, ("inc", "x"), [("if", "x >= n", [("break",)], None), ("assign", "t", "t + x")]), Y("x + t")]))
    # the body of a range loop is a scope of its own: a ':=' that reuses the name of a range variable shadows it
    D.append(("range_two_vars_body_redeclares_value", [("range", "k", "v", ":=", "[]int{a, b, a + b}", [("raw", "get := func() int { return v }"), ("raw", "v, w := v*2, k + 1"), Y("v + w"), Y("get() + 3")]), Y("a + 4")]))
    D.append(("range_two_vars_body_redeclares_key", [("range", "k", "v", ":=", "[]int{a, b}", [("raw", "p := &k"), ("raw", "k, ok := v + 10, v > a"), ("if", "ok", [Y("k")], None), Y("*p + 5")]), Y("b + 6")]))
    D.append(("range_one_var_body_shadows", [("range", "_", "v", ":=", "[]int{a, b}", [("raw", "get := func() int { return v }"), ("raw", "v := v + 100"), Y("v"), Y("get()")]), Y("a")]))
    D.append(("range_two_vars_noyield_body_redeclares", [("decl", "t", "0"), ("range", "k", "v", ":=", "[]int{a, b, a + b}", [("raw", "get := func() int { return v + k }"), ("raw", "v, w := v*2, k + 1"), ("assign", "t", "t*4 + v + w + get()")]), Y("t")]))
    D.append(("assign_range_leading_self_copy", [("raw", "var k, v int"), ("range", "k", "v", "=", "[]int{a, b, a + b}", [("raw", "v := v\nk := k"), ("assign", "v", "v * 10"), ("assign", "k", "k + 100"), Y("k + v")]), Y("k"), Y("v")]))
    D.append(("assign_range_self_copy_captured", [("raw", "var v int\nvar fs []func() int"), ("range", "_", "v", "=", "[]int{a, b}", [("raw", "v := v\nfs = append(fs, func() int { return v })"), Y("v")]), ("raw", "for _, f := range fs {\n\tYield(f() + 1000)\n}"), Y("v + 1")]))
    D.append(("define_range_leading_self_copy", [("range", "k", "v", ":=", "[]int{a, b}", [("raw", "v := v\nk := k"), ("assign", "v", "v * 10"), Y("k + v")]), Y("a")]))
    # yield-free bare blocks that shadow with var / const / type declarations
    D.append(("bare_block_var_shadow_after_yield", [("decl", "x", "a + 1"), ("raw", "get := func() int { return x }"), Y("x"), ("block", [("raw", "var x int = b + 2\nrt.Emit(45, x)")]), Y("x + 3"), ("assign", "x", "x + 4"), Y("get()")]))
    D.append(("bare_block_const_type_shadow_after_yield", [("decl", "x", "a + 1"), Y("x"), ("block", [("raw", "const x = 7\ntype y struct{ f int }\nrt.Emit(45, x+y{f: 1}.f)")]), ("decl", "y", "b + 2"), Y("x + y")]))
    D.append(("bare_block_var_shadow_in_loop", [("decl", "x", "a"), ("for", ("decl", "i", "0"), "i < n", ("inc", "i"), [Y("x + i"), ("block", [("raw", "var x = i + 100\nrt.Emit(45, x)")]), ("assign", "x", "x + 1")]), Y("x")]))
    D.append(("init_after_yield", [Y("a + 1"), ("for", ("decl", "x", "a"), "x < a + n", ("inc", "x"), [Y("x + 2")]), ("decl", "x", "b"), Y("x + 3")]))
    # loop-variable identity: closures created in one iteration, called after the loop
    D.append(("range_var_captured_escapes", [("raw", "var fs []func() int"), ("range", "_", "v", ":=", "[]int{a, b, a + b}", [("raw", "fs = append(fs, func() int { return v })"), Y("v + 1")]), ("raw", "for _, f := range fs {\n\tYield(f() + 1000)\n}")]))
    D.append(("range_var_captured_escapes_noyield", [("raw", "var fs []func() int"), ("range", "k", "v", ":=", "[]int{a, b, a + b}", [("raw", "fs = append(fs, func() int { return k*100 + v })")]), ("raw", "for _, f := range fs {\n\tYield(f() + 1000)\n}")]))
    D.append(("range_assign_var_captured_escapes", [("raw", "var fs []func() int\nvar v int"), ("range", "_", "v", "=", "[]int{a, b, a + b}", [("raw", "fs = append(fs, func() int { return v })"), Y("v + 1")]), ("raw", "for _, f := range fs {\n\tYield(f() + 1000)\n}")]))
    D.append(("for_var_captured_escapes", [("raw", "var fs []func() int"), ("for", ("decl", "i", "0"), "i < n", ("inc", "i"), [("raw", "fs = append(fs, func() int { return i + a })"), Y("i + 1")]), ("raw", "for _, f := range fs {\n\tYield(f() + 1000)\n}")]))
    D.append(("for_var_captured_escapes_noyield", [("raw", "var fs []func() int"), ("for", ("decl", "i", "0"), "i < n", ("inc", "i"), [("raw", "fs = append(fs, func() int { return i + a })")]), ("raw", "for _, f := range fs {\n\tYield(f() + 1000)\n}")]))
    D.append(("for_var_captured_writer_escapes", [("raw", "var fs []func() int"), ("for", ("decl", "i", "0"), "i < n", ("inc", "i"), [("raw", "fs = append(fs, func() int { i += 10; return i + b })"), Y("i + 1")]), ("raw", "for _, f := range fs {\n\tYield(f() + 1000)\n}")]))
    D.append(("if_else_scopes", [("decl", "x", "a"), ("if", "g1", [("decl", "x", "b + 1"), Y("x + 2")], [("assign", "x", "x + 3"), Y("x + 4")]), Y("x + 5")]))
    # variables declared by the statements of a loop body exist once per iteration: closures that outlive the iteration keep theirs
    D.append(("body_var_decl_escaping_closure", [("raw", "var fs []func() int"), ("for", ("decl", "i", "0"), "i < n", ("inc", "i"), [("raw", "var x int\nx += a + i*10\nfs = append(fs, func() int {\n\tx++\n\treturn x\n})"), Y("x + 1")]), ("raw", "for _, f := range fs {\n\tYield(f() + 100)\n}\nfor _, f := range fs {\n\tYield(f() + 200)\n}")]))
    D.append(("body_var_define_escaping_closure_while", [("raw", "var fs []func() int\nw := 0"), ("for", None, "w < n", None, [("raw", "w++\nx := b + w\nvar y int\nfs = append(fs, func() int {\n\ty += x\n\treturn y\n})"), Y("x + y + 2")]), ("raw", "for _, f := range fs {\n\tYield(f() + 300)\n}\nfor _, f := range fs {\n\tYield(f() + 400)\n}")]))
    D.append(("body_var_decl_escaping_closure_called_next_iteration", [("raw", "prev := func() int { return -1 }"), ("for", ("decl", "i", "0"), "i < n", ("inc", "i"), [("raw", "var x int\nvar s struct{ v int }"), Y("prev() + 3"), ("raw", "x, s.v = a+i, b+i\nprev = func() int {\n\tx += s.v\n\treturn x\n}")]), Y("prev() + 4")]))
    # pinned: seed C03_r13 was reached through sampled programs only
    D.append(("if_return_else_block_shadows", [("decl", "x", "a + 1"), ("if", "g1", [Y("x + 2"), ("return",)], [("decl", "x", "b + 3"), Y("x + 4"), ("assign", "x", "x + 5")]), Y("x + 6"), ("assign", "x", "x + 7"), Y("x + 8")]))
    D.append(("if_return_else_block_shadows_in_loop", [("decl", "x", "a"), ("for", ("decl", "i", "0"), "i < n", ("inc", "i"), [("if", "g2 && i == 1", [Y("x + 9"), ("return",)], [("raw", "var x = b + i"), Y("x + 10")]), ("assign", "x", "x + 11"), Y("x + 12")])]))
    return D


def plan_C03(ctx):
    K = ctx.q(6, 12)

    def build(corp):
        rng = random.Random(ctx.seed * 977 + 3)
        n = 0
        for name, body in directed_c03():
            tags = {"directed:" + name}
            if name.startswith("range_var_captured"):
                tags.add("range-var-captured-across-iterations")  # go < 1.22 sources: one variable per loop (F7)
            corp.add(gen.Program("d_%s" % name, body, helpers=C01_HELPERS if "H2(" in repr(body) else "", named_result=(n % 2 == 0), family="scp", tags=tags))
            n += 1
        for name, body in (("const_shadowed_by_local_in_loop", [("raw", "csX := a"), ("for", ("decl", "i", "0"), "i < n", ("inc", "i"), [("yield", "csX"), ("assign", "csX", "csX + b")]), ("yield", "csX + 1")]),
                           ("const_shadowed_by_local_closure_update", [("raw", "csX := a\nbump := func() { csX += b }"), ("for", ("decl", "i", "0"), "i < n", ("inc", "i"), [("yield", "csX"), ("raw", "bump()")]), ("yield", "csX + 1")])):
            pid = "d_%s" % name
            ident = "cs_%s" % name
            body = [tuple(x.replace("csX", ident) if isinstance(x, str) else x for x in st) if st[0] != "for" else
                    ("for", st[1], st[2], st[3], [tuple(x.replace("csX", ident) if isinstance(x, str) else x for x in b) for b in st[4]]) for st in body]
            corp.add(gen.Program(pid, body, helpers="// a package-level constant with the name of a local variable of the generator\nconst %s = 7\n" % ident, named_result=True, family="scp", tags={"directed:" + name}))
            n += 1
        want = ctx.q(400, 2200)
        tries = 0
        while n < want and tries < want * 20:
            tries += 1
            smp = gen.ScopeSampler(rng)
            body = smp.body([rng.randint(5, 14)], [], False, 0)
            if not gen.contains_yield(body):
                continue
            if getattr(smp, "nesc", 0):
                # closures that escaped their loop iteration are called when the body is done; a return
                # in the body skips them, which is fine
                body = [("raw", "var esc []func() int")] + body + [("raw", "for _, f := range esc {\n\tYield(f() + 7000)\n}")]
            corp.add(gen.Program("v%04d" % n, body, named_result=(n % 2 == 0), family="scp"))
            n += 1
        return {"programs_generated": n, "directed": len(directed_c03()),
                "grammar": "declare/shadow/update x,y at function level, in blocks, if/else arms, for initialisers (also shadowing), switch and type-switch initialisers and clauses, range variables; reader/writer closures created before yields and called after"}

    extra = {
        "bounds": {"advances_K": K, "loop_bound_n": "[-1,3]", "outside": "program shapes not generated; closures escaping the generator (C06/C13); Go >= 1.22 per-iteration loop variables"},
        "explanation": "every declaration is initialised from a distinct symbolic term (parameter + unique constant), so a reference resolved to the wrong variable yields a different term and the solver produces a distinguishing input; log = yields + value effects of every variable at the end of its scope",
    }
    # the same loop-variable shapes under go >= 1.22 semantics (per-iteration variables): a second
    # workspace whose go.mod says go 1.22; go/ssa and the go compiler both follow the file version
    ctx22 = runner.SubCtx(ctx, "ws22", "1.22")

    def build22(corp):
        n = 0
        for name, body in directed_c03():
            if "captured" not in name and name not in ("closure_in_loop", "closure_sees_update", "for_post_scope", "init_after_yield", "range_shadow"):
                continue
            tags = {"directed:" + name, "go1.22"}
            if name.startswith("for_var_captured"):
                tags.add("for-var-captured-per-iteration-go122")  # F8
            corp.add(gen.Program("e_%s" % name, body, named_result=(n % 2 == 0), family="scp22", tags=tags))
            n += 1
        return {"go122_programs": n, "go_version": "1.22 (per-iteration loop variables)"}

    run22 = corpus_run(ctx22, "c03v", build22, K, 0)
    extra["bounds"]["outside"] = "program shapes not generated; closures escaping the generator (C06/C13); under go >= 1.22 semantics only the directed loop-variable shapes"
    return corpus_check(ctx, "c03", build, K, 0, extra, [REF_ASSUMPTION, PROGRAM_DIM], floors={"drivers_holds": ctx.q(100, 1000), "decided_ratio_min": 0.95}, more_runs=[run22])


CLAIMED["C03"] = plan_C03


def plan_C04(ctx):
    K = ctx.q(10, 14)

    def build(corp):
        ps = gen.c04_programs(strlens=ctx.q((0, 1, 2, 3), (0, 1, 2, 3, 4))) + gen.c04_typeparam_programs()
        for p in ps:
            corp.add(p)
        fams = {}
        for p in ps:
            fams[p.family] = fams.get(p.family, 0) + 1
        return {"programs_generated": len(ps), "by_collection_kind": fams,
                "forms": ["k, v :=", "k :=", "_, v :=", "no variables", "k, v = (outer variables, observed after the loop)"],
                "bodies": ["yield", "no yield (accumulate)", "continue before yield", "break after yield", "mutation of the ranged collection before / after the yield / without yield", "nested range", "range inside a non-generator closure"]}

    extra = {
        "bounds": {"advances_K": K, "string_bytes": "length 0..%d, bytes fully symbolic" % ctx.q(3, 4), "slice/array/map/chan sizes": "<= 3, elements symbolic",
                   "integer_range": "n in [-2,3] symbolic, in a second workspace with go 1.22 sources",
                   "outside": "map iteration order (both worlds use one admissible order: insertion order, an entry created during the loop is produced next; native replay of map programs compares only that a difference exists); unbuffered channels"},
        "explanation": "reference = go/ssa's own lowering of the native range statement in the source (single evaluation, length snapshot, array copy) under coroutine semantics; implementation = generated loop over seq.New*Iter; flat log equality",
    }
    # integer range needs go >= 1.22 sources: a second workspace whose go.mod says go 1.22
    ctx22 = runner.SubCtx(ctx, "ws22", "1.22")

    def build_int(corp):
        ps = gen.c04_programs(only_int=True)
        for p in ps:
            corp.add(p)
        return {"integer_range_programs": len(ps), "go_version": "1.22 (per-iteration loop variables: these programs capture no three-clause loop variable)"}

    int_run = corpus_run(ctx22, "c04i", build_int, K, 0, nlo=-2, nhi=3)
    return corpus_check(ctx, "c04", build, K, 0, extra, [REF_ASSUMPTION, PROGRAM_DIM,
                        "string range / []rune(s) / utf8.DecodeRuneInString share one engine decoder; map range and reflect.MapIter share one insertion-ordered iterator"],
                        floors={"drivers_holds": ctx.q(150, 200), "decided_ratio_min": 0.95}, more_runs=[int_run])


CLAIMED["C04"] = plan_C04


def plan_C06(ctx):
    def build(corp):
        rng = random.Random(ctx.seed * 613 + 6)
        ps = gen.c06_programs(rng, ctx.q(16, 60))
        for p in ps:
            corp.add(p)
        return {"consumer_programs": len(ps), "shapes": gen.C06_SHAPES,
                "generators": ["finite with n+2 elements", "infinite", "two elements", "method generator", "generic generator mapIt[T,U]"],
                "note": "every generator emits an effect before each yield, so the number of elements pulled is visible: after a consumer break/return the log must not contain a further generator effect"}

    extra = {
        "bounds": {"loop_bound_n": "[-1,2]", "outside": "consumer shapes not generated; nil iterators; Current() before the first advance as control input; consumer loops that re-declare their variable in the body (rejected by the Go type checker after lowering: C11 territory)"},
        "explanation": "drivers call a consumer function (range with break/continue/return at guard-controlled points, := and = forms, nested ranges, pull+range on one iterator, iterators in struct fields / maps / slices / closures, generic helpers, method and generic generators); log = generator-side effects + consumer-side effects + final result; flat equality source-under-coroutine-semantics vs generated code. Incomplete Iter type replacement shows up as a generated package that does not type-check (front-end refutation, reported as unbuildable, not as a solver verdict).",
    }
    return corpus_check(ctx, "c06", build, 0, 0, extra, [REF_ASSUMPTION, PROGRAM_DIM], floors={"drivers_holds": ctx.q(150, 800), "decided_ratio_min": 0.95}, nlo=-1, nhi=2)


CLAIMED["C06"] = plan_C06


ETA_TYPES = """type cnt@ struct{ v int }

func (c cnt@) Get() int   { return c.v }
func (c *cnt@) Inc() int  { c.v++; return c.v }
func id@[T any](x T) T    { return x }
func twice@(x int) int    { return x * 2 }
func sub@(x, y int) int   { return x - y }
"""


def eta_programs():
    """user closures of the shape func(params) T { return f(params) } in generator bodies"""
    Y = lambda e: ("yield", e)
    P = []
    P.append(("funcvar", [("raw", "h := func(x int) int { return x + 1 }\nf := func(x int) int { return h(x) }"), Y("f(a)"), ("raw", "h = func(x int) int { return x + 2 }"), Y("f(a)")]))
    P.append(("method_value_reassigned", [("raw", "s := cnt@{v: a}\nget := func() int { return s.Get() }"), Y("get()"), ("raw", "s = cnt@{v: b}"), Y("get() + 1")]))
    P.append(("nil_receiver_later_set", [("raw", "var p *cnt@\ninc := func() int { return p.Inc() }\np = &cnt@{v: a}"), Y("inc()"), Y("inc() + 1")]))
    P.append(("pull_loop_reassign", [("raw", "it := H2(a)"), ("for", None, "it.MoveNext()", None, [Y("it.Current()"), ("if", "g1", [("raw", "it = H2(b)\ng1 = false")], None)])]))
    P.append(("pull_loop_stable", [("raw", "it := H2(a)"), ("for", None, "it.MoveNext()", None, [Y("it.Current()")]), Y("b")]))
    P.append(("builtin_len", [("raw", "ln := func(s string) int { return len(s) }"), Y("ln(\"abc\") + a")]))
    P.append(("conversion", [("raw", "cv := func(x int) int64 { return int64(x) }"), Y("int(cv(a)) + 1")]))
    P.append(("generic_inferred", [("raw", "idf := func(x int) int { return id@(x) }"), Y("idf(a) + 1")]))
    P.append(("generic_explicit", [("raw", "idf := func(x int) int { return id@[int](x) }"), Y("idf(a) + 1")]))
    P.append(("plain_func", [("raw", "tw := func(x int) int { return twice@(x) }"), Y("tw(a) + 1"), Y("tw(b)")]))
    P.append(("permuted_params", [("raw", "flip := func(x, y int) int { return sub@(y, x) }"), Y("flip(a, b)"), Y("flip(b, 1)")]))
    P.append(("duplicated_params", [("raw", "dup := func(x, y int) int { return sub@(y, y) }\nk := func(x, y int) int { return twice@(y) }"), Y("dup(a, b) + 1"), Y("k(a, b)")]))
    P.append(("funcvar_redeclared_multi_define", [("raw", "h := func(x int) int { return x + 1 }\nf := func(x int) int { return h(x) }"), Y("f(a)"), ("raw", "h, k := func(x int) int { return x + 20 }, b"), Y("f(a) + k")]))
    P.append(("funcvar_param", [("raw", "apply := func(h func(int) int) func(int) int {\n\treturn func(x int) int { return h(x) }\n}\ninc := apply(func(x int) int { return x + 1 })"), Y("inc(a)"), Y("inc(b)")]))
    P.append(("param_shadow", [("raw", "x := a\nf := func(y int) int { return twice@(x) }"), Y("f(b)"), ("raw", "x = b"), Y("f(a)")]))
    P.append(("funcvar_in_loop", [("raw", "h := func(x int) int { return x + 1 }"), ("for", ("decl", "i", "0"), "i < n", ("inc", "i"), [("raw", "f := func(x int) int { return h(x) }\nh = func(x int) int { return x + 10*(i+1) }"), Y("f(a)")])]))
    out = []
    for name, body in P:
        helpers = ETA_TYPES + ("\n" + C01_HELPERS if "H2(" in repr(body) else "")
        p = gen.Program("eta_%s" % name, body, helpers=helpers, family="eta", tags={"eta:" + name})
        out.append(p)
    return out


def nested_packages_c07(ctx, K):
    """a source tree with a nested package directory that re-uses the file name of its parent: both
    stages must mirror the tree. Returns (violations, evidence)."""
    driver = runner.build_driver(ctx)
    ctx.driver_bin = driver
    progs = {"c07_nested": gen.Program("nest", [("yield", "a + 1"), ("eff", 1), ("yield", "b + 2")], named_result=True),
             "c07_nested/v2": gen.Program("nest", [("yield", "a + 1001"), ("yield", "b + 1002"), ("eff", 2), ("yield", "a")], named_result=True)}
    for d, p in progs.items():
        sd = os.path.join(ctx.ws, "src", d)
        os.makedirs(sd, exist_ok=True)
        with open(os.path.join(sd, "zz_header.go"), "w") as f:
            f.write(gen.HEADER % {"pkg": "corp"})
        with open(os.path.join(sd, "gen_nest.go"), "w") as f:
            f.write(corpus.import_style("nest", p.source(K)))
    src = os.path.join(ctx.ws, "src", "c07_nested")
    info = {"layout": ["c07_nested/gen_nest.go", "c07_nested/v2/gen_nest.go"], "problems": []}
    for mode, tree in (("compile", "out"), ("stage1", "unopt")):
        dst = os.path.join(ctx.ws, tree, "c07_nested")
        p = subprocess.run([driver, mode, src, dst], env=runner.GOENV, stdout=subprocess.PIPE, stderr=subprocess.STDOUT, text=True, cwd=ctx.ws)
        shutil.rmtree(dst + "_tmp", ignore_errors=True)
        if '"ok":true' not in p.stdout.replace(" ", ""):
            raise CheckError("the compiler rejected the nested-package layout: " + p.stdout[-500:])
    viol = 0
    for d in progs:
        o, u = os.path.join(ctx.ws, "out", d, "gen_nest.go"), os.path.join(ctx.ws, "unopt", d, "gen_nest.go")
        if os.path.exists(u) and not os.path.exists(o):
            viol += 1
            info["problems"].append("the optimising stage wrote no %s/gen_nest.go although the unoptimised stage did" % d)
            path = runner.save_replay(ctx, "nested" + d, [], {"property": ctx.pid, "kind": "front-end-refutation (not a solver verdict)", "what": info["problems"][-1]})
            print("VIOLATION property=%s replay=%s" % (ctx.pid, path))
    if viol:
        return viol, info
    files = [os.path.join(ctx.ws, "unopt", d, "gen_nest.go") for d in progs]
    runner.sh([runner.build_engine(), "fiximports"] + files)
    pairs = []
    for d in progs:
        pairs += ["-pair", "verifws/unopt/%s=verifws/out/%s" % (d, d)]
    res = runner.run_engine(ctx, pairs + engine_common(ctx) + ["-refplain"], name="result_nested")
    for d in res["drivers"]:
        if d["status"] == "violated":
            viol += 1
            f = d["failures"][0]
            path = runner.save_replay(ctx, "nested" + d["name"], [], {"property": ctx.pid, "driver": d["name"], "kind": f["kind"], "msg": f["msg"], "model": f["model"], "logs": f.get("logs"),
                                                                       "what": "optimised and unoptimised output of a package in a nested-directory layout behave differently"})
            print("VIOLATION property=%s replay=%s" % (ctx.pid, path))
    info["drivers"] = {d["name"]: d["status"] for d in res["drivers"]}
    return viol, info


def plan_C07(ctx):
    K = ctx.q(6, 12)
    nested_viol, nested_info = nested_packages_c07(ctx, K)

    def build(corp):
        counts = build_c01_corpus(ctx, corp, ctx.q(137, 2000), ctx.q(320, 1500), sample_seed_off=7)
        # effect-instrumented sample (evaluation points visible)
        rng = random.Random(ctx.seed * 7 + 77)
        n = 0
        for body in gen.sampled(rng, ctx.q(100, 800), 10):
            body = gen.effectify(body, rng, gen.Ctr())
            corp.add(gen.Program("f%04d" % n, body, named_result=(n % 2 == 0), family="eff"))
            n += 1
        # delegating programs
        smp = gen.YFSampler(rng)
        m = 0
        tries = 0
        while m < ctx.q(60, 500) and tries < 20000:
            tries += 1
            body = smp.body([rng.randint(3, 9)], gen.Ctr(), [], False, False, 0, [])
            if "yieldfrom" not in repr(body):
                continue
            corp.add(gen.Program("y%04d" % m, body, helpers=gen.C05_HELPERS, named_result=(m % 2 == 0), family="yf"))
            m += 1
        for p in eta_programs():
            p.helpers = p.helpers.replace("@", p.pid)
            p.body = [tuple(x.replace("@", p.pid) if isinstance(x, str) else x for x in st) for st in p.body]
            corp.add(p)
        xs = gen.exprform_programs() + gen.funcvalue_programs() + gen.unit_programs()
        for p in xs:
            corp.add(p)
        # closures over functions of other imported packages whose signature is the only mention of a
        # further import: whatever the optimiser does to them, import clean-up must leave a file that builds
        IMPS = [("scanner", "bufio io _embed _unicode/utf8", "var mk@ = func(r io.Reader) *bufio.Scanner { return bufio.NewScanner(r) }\nvar _ = mk@"),
                ("writer", "bufio io", "var mk@ = func(w io.Writer) *bufio.Writer { return bufio.NewWriter(w) }\nvar _ = mk@"),
                ("tabwriter_in_generator", "io text/tabwriter", None)]
        for name, imps, decl in IMPS:
            body = [("yield", "a"), ("yield", "b + 1")]
            if decl is None:
                body = [("raw", "mk := func(w io.Writer) *tabwriter.Writer { return tabwriter.NewWriter(w, 0, 8, 1, ' ', 0) }\n_ = mk"), ("yield", "a"), ("yield", "b + 1")]
                decl = ""
            p = gen.Program("im_%s" % name, body, helpers=("// EXTRA-IMPORTS: %s\n" % imps) + decl.replace("@", "im_" + name), named_result=True, family="imp_" + name, tags={"imports:" + name})
            corp.add(p)
        counts["import_cleanup_programs"] = len(IMPS)
        bys = gen.c13_programs()  # user closures in bystander functions of processed files
        for p in bys:
            corp.add(p)
        counts.update({"effect_instrumented": n, "delegating": m, "eta_shapes": len(eta_programs()), "expression_forms": len(xs), "bystander_programs": len(bys)})
        return counts

    extra = {
        "bounds": {"advances_K": K, "loop_bound_n": "[-1,3]", "outside": "program shapes not generated; optimiser behaviour on files the rewriter does not produce"},
        "nested_package_layout": nested_info,
        "explanation": "reference = output of stage 1 only (VerifRewriteStage hook: the same rewriteAllFiles and printer as Compile) with its unused co import removed; implementation = output of the unmodified rewriter.Compile; both are generated Go linked with the real seq, executed symbolically on the same path; flat log equality incl. advance markers and rt.Eff events. Build clause: a program whose optimised output fails go/types while the unoptimised one passes is a front-end refutation.",
    }
    return corpus_check(ctx, "c07", build, K, 1, extra,
                        ["both worlds are plain Go (no coroutine intrinsics)", PROGRAM_DIM,
                         "the unoptimised world is the hook's output after removing the co import it no longer uses (go/types would otherwise reject it; production never builds that stage)"],
                        floors={"drivers_holds": ctx.q(200, 2000), "decided_ratio_min": 0.95}, stage1=True, ref_tree="unopt", extra_violations=nested_viol)


CLAIMED["C07"] = plan_C07


def plan_C13(ctx):
    def build(corp):
        ps = gen.c13_programs()
        # ordinary closures inside generator bodies that range over a slice / array pointer and write
        # ahead of the cursor (a native range sees the stored elements)
        PRE = "pre := func(xs []int) {\n\tfor i, v := range xs {\n\t\tif i+1 < len(xs) {\n\t\t\txs[i+1] += v\n\t\t}\n\t}\n}\nxs := []int{a, b, a + b, 1}\npre(xs)"
        PA = "var arr [4]int\nfill := func(p *[4]int) {\n\tfor i, v := range p {\n\t\tif i+1 < len(p) {\n\t\t\tp[i+1] = v + a + i\n\t\t}\n\t}\n}\narr[0] = b\nfill(&arr)"
        TAIL = "tail := func(xs []int) (int, int) {\n\tidx, last := -1, -1\n\tfor idx, last = range xs {\n\t}\n\treturn idx, last\n}\ni1, l1 := tail([]int{a, b, a + b})"
        ps.append(gen.Program("n_closure_assign_range_empty_body", [("raw", TAIL), ("yield", "i1*100 + l1"), ("raw", "var off int\nvar r rune\nfor off, r = range \"héé\" {\n}"), ("yield", "off*1000 + int(r)")], named_result=True, family="bys", tags={"bystander:closure-in-generator"}))
        ps.append(gen.Program("n_closure_prefix_sums", [("raw", PRE), ("yield", "xs[1]"), ("yield", "xs[2] + xs[3]")], named_result=True, family="bys", tags={"bystander:closure-in-generator"}))
        ps.append(gen.Program("n_closure_array_pointer_fill", [("yield", "a"), ("raw", PA), ("yield", "arr[1]"), ("yield", "arr[2] + arr[3]")], named_result=True, family="bys", tags={"bystander:closure-in-generator"}))
        DIRS = "//go:noinline\nfunc pin@(x int) int { return x*3 + 1 }\n\n//go:embed gen_@.go\nvar hdr@ string\n\n// a free-floating remark that nothing depends on\n\n//go:nosplit\nfunc tiny@() int { return (len(hdr@) >> 40) & 1 }\n"
        for name, imps in (("directives", "_embed"), ("blank_imports", "_embed _image/png _unicode/utf8"), ("documented_generator", "_embed")):
            pid = "dv_" + name
            p = gen.Program(pid, [("yield", "pin%s(a)" % pid), ("yield", "tiny%s() + b" % pid)], helpers=("// EXTRA-IMPORTS: %s\n" % imps) + DIRS.replace("@", pid), named_result=True, family="dirs", tags={"bystander:" + name})
            if name == "documented_generator":
                # the generator declaration carries a doc comment of its own (the rewriter appends its source dump there)
                p.doc = "// G%s yields two values computed by the directive-carrying bystanders below.\n// It is documented like any exported function." % pid
            ps.append(p)
        # an earlier file of the same package with a function-literal generator (per-file rewriter state)
        lit = gen.Program("aa_lit", [("yield", "a"), ("yield", "b + 1")], named_result=False, family="dirs", tags={"bystander:lit-generator-first"})
        lit.form = "lit"
        ps.append(lit)
        for p in ps:
            corp.add(p)
        return {"bystander_programs": len(ps), "shapes": [n for n, _ in gen.C13_BODIES],
                "declarations": "plain functions, value/pointer-receiver methods, generic function, constant, package-level slice / function-valued variable / counter, closures (eta shapes with later mutation of callee or receiver, capture by reference), defer/recover, native range"}

    extra = {
        "bounds": {"ints": "64-bit symbolic a, b; guard symbolic", "outside": "bystander shapes not generated; comments and compiler directives carried by comments (//go:embed, //go:noinline: seed C13_r3 is not caught), embedded files, side-effect imports; one processed file per program"},
        "explanation": "every file holds a generator (so the file is processed) and bystander declarations; drivers call the bystanders with symbolic arguments in the source package and in the generated package; log = results; flat equality. A type error in the generated file (the source type-checks) is a front-end refutation.",
    }
    # go >= 1.22 sources (per-iteration loop variables): plain functions, and ordinary closures nested
    # in generator bodies, whose three-clause loops must keep one variable per iteration
    ctx22 = runner.SubCtx(ctx, "ws22", "1.22")
    NESTED = "mk := func(m int) (fs []func() int) {\n\tfor i := 0; i < m; i++ {\n\t\tfs = append(fs, func() int { return i + a })\n\t}\n\treturn\n}"
    NESTED2 = "sum := func(m int) int {\n\tvar fs []func() int\n\tfor i, j := 0, m; i < j; i, j = i+1, j-1 {\n\t\tfs = append(fs, func() int { return i*8 + j })\n\t}\n\tt := 0\n\tfor _, f := range fs {\n\t\tt = t*64 + f()\n\t}\n\treturn t\n}"

    def build22(corp):
        ps = gen.c13_programs(gen.C13_BODIES_22)
        ps.append(gen.Program("n_closure_for_in_generator", [("raw", NESTED), ("yield", "a"), ("raw", "for _, f := range mk(n) {\n\tYield(f() + 1)\n}")], named_result=True, family="bys22", tags={"bystander:closure-in-generator", "go1.22"}))
        ps.append(gen.Program("n_closure_for2_in_generator", [("raw", NESTED2), ("yield", "sum(n + 2) + b"), ("yield", "sum(4)")], named_result=True, family="bys22", tags={"bystander:closure-in-generator", "go1.22"}))
        ps.append(gen.Program("n_closure_for_in_generator_after_yield", [("yield", "a"), ("if", "g1", [("raw", NESTED), ("raw", "for _, f := range mk(n) {\n\tYield(f() + 1)\n}")], None), ("yield", "b")], named_result=True, family="bys22", tags={"bystander:closure-in-generator", "go1.22"}))
        for p in ps:
            corp.add(p)
        return {"go122_programs": len(ps), "go_version": "1.22 (per-iteration loop variables)"}

    run22 = corpus_run(ctx22, "c13v", build22, 6, 0, unbuildable_is_violation=True)
    return corpus_check(ctx, "c13", build, 4, 0, extra, [PROGRAM_DIM, "bystanders do not use the co API, so the reference side is ordinary Go"],
                        floors={"drivers_holds": 10}, unbuildable_is_violation=True, more_runs=[run22])


CLAIMED["C13"] = plan_C13


def plan_C12(ctx):
    K = ctx.q(8, 12)
    import copy

    def build(corp):
        rng = random.Random(ctx.seed * 733 + 12)
        hosts = [[("yield", "a + 1")], [("yield", "a + 1"), ("eff", 1), ("yield", "b + 2")]]
        exh = gen.exhaustive(3)
        rng.shuffle(exh)
        for lst in exh[:ctx.q(4, 40)]:
            hosts.append(gen.concretize(lst, gen.Ctr(), []))
        hosts += gen.sampled(rng, ctx.q(3, 60), 8)
        n = 0
        for name, inj in gen.c12_injections():
            for hi, host in enumerate(hosts if not name.startswith("ctl_") else hosts[:4]):
                body = gen.inject_at(copy.deepcopy(host), copy.deepcopy(inj), rng)
                # labels must be unique per function: one injection per program guarantees it
                p = gen.Program("u%04d" % n, body, named_result=True, family="uns", tags={"unsupported:" + name} | ({"control"} if name.startswith("ctl_") else set()))
                n += 1
                corp.add(p)
        for name, text in gen.C12_STANDALONE:
            p = gen.Program("w_%s" % name, [("yield", "a")], family="uns", tags={"unsupported:" + name})
            p.driver = "STANDALONE"
            p.standalone = text
            corp.add(p)
        return {"programs": n + len(gen.C12_STANDALONE), "injected_constructs": [nm for nm, _ in gen.c12_injections()] + [nm for nm, _ in gen.C12_STANDALONE], "host_programs": len(hosts)}

    extra = {
        "bounds": {"advances_K": K, "outside": "constructs / positions not generated; range over func (needs go >= 1.23 sources); programs the engine cannot execute (select, go) are undecided when accepted"},
        "explanation": "the real compiler decides first: no output (panic/diagnostic) = rejected, allowed; output that does not type-check = unbuildable, allowed by the statement; otherwise the C01 equivalence query decides whether the generated code behaves like the source (goto/labels/fallthrough/defer are executed natively from the source's SSA). Only 'builds and behaves differently' is a violation.",
    }
    return corpus_check(ctx, "c12", build, K, 0, extra, [REF_ASSUMPTION, PROGRAM_DIM], floors={"programs_examined": ctx.q(100, 500)}, batch=2, surviving_stub_is_violation=True)


CLAIMED["C12"] = plan_C12


def plan_C14(ctx):
    k, m = ctx.q((2, 3), (3, 2))

    map_pids = []

    def build(corp):
        rng = random.Random(ctx.seed * 389 + 14)
        n = 0
        bodies = []
        for name, body in directed_c01():
            bodies.append((body, C01_HELPERS if "H2(" in repr(body) else ""))
        for name, body in directed_c05():
            bodies.append((body, gen.C05_HELPERS))
        for body in gen.sampled(rng, ctx.q(60, 300), 10):
            bodies.append((body, ""))
        smp = gen.YFSampler(rng)
        tries = 0
        want = len(bodies) + ctx.q(30, 150)
        while len(bodies) < want and tries < 20000:
            tries += 1
            body = smp.body([rng.randint(3, 8)], gen.Ctr(), [], False, False, 0, [])
            if "yieldfrom" in repr(body):
                bodies.append((body, gen.C05_HELPERS))
        # generators that range over collections built from their arguments (the range iterators of
        # seq/iter.go are runtime state too)
        Y = lambda e: ("yield", e)
        rng_bodies = [
            [("raw", "s := string([]byte{byte(a), byte(b)})"), ("range", "i", "r", ":=", "s", [Y("i*1000 + int(r)")]), Y("a + 1")],
            [("raw", "s := string([]byte{byte(a)})"), ("range", "i", "r", ":=", "s", [Y("i*1000 + int(r)")]), ("range", "_", "r", ":=", "s", [Y("int(r) + 5")])],
            [("raw", "s := string([]byte{'x', byte(b), 'z'})"), ("range", "i", None, ":=", "s", [Y("i + a")])],
            [("raw", "sl := []int{a, b}"), ("range", "i", "v", ":=", "sl", [Y("i*1000 + v"), ("raw", "sl[1] = a + b")]), Y("sl[1]")],
            [("raw", "m := map[int]int{1: a, 2: b}"), ("range", "k", "v", ":=", "m", [Y("k*1000 + v")])],
            [("raw", "ch := make(chan int, 2)\nch <- a\nch <- b\nclose(ch)"), ("range", "v", None, ":=", "ch", [Y("v + 1")])],
            [("raw", "arr := [2]int{a, b}"), ("range", "i", "v", ":=", "arr", [Y("i*1000 + v")]), Y("b + 2")],
            [("raw", "s := string([]byte{byte(a), byte(b)})"), ("range", "_", "r", ":=", "s", [("range", "_", "q", ":=", "s", [Y("int(r)*256 + int(q)")])])],
        ]
        for body in rng_bodies:
            bodies.append((body, ""))
        for body, helpers in bodies:
            p = gen.Program("i%04d" % n, body, helpers=helpers, named_result=(n % 2 == 0), family="il")
            if "map[" in repr(body):
                map_pids.append(p.pid)
            S = "stepI%s" % p.pid
            makers = ["%s(%s(a, b, n, g1, g2, g3))" % (S, p.name), "%s(%s(a, b, n, g1, g2, g3))" % (S, p.name), "%s(%s(b, a, n, !g1, g2, g3))" % (S, p.name)][:k]
            if helpers == gen.C05_HELPERS and k >= 2:
                makers[1] = "%s(R1(n+1, b))" % S  # a recursive delegator as the second iterator
            p.helpers = (p.helpers + "\n" if p.helpers else "") + gen.IL_HELPERS.replace("@", p.pid) + "\n" + gen.il_driver(p.name, k, m, makers)
            if n % 3 == 0:
                # iterators of two element types interleaved (runtime state keyed by nothing but luck
                # would be shared across instantiations)
                mixed = ["%s(%s(a, b, n, g1, g2, g3))" % (S, p.name), "stepS%s(GS%s(a, n))" % (p.pid, p.pid)]
                p.helpers += "\n" + gen.il_driver(p.name, 2, m, mixed, suffix="X")
            n += 1
            corp.add(p)
        # value-receiver method generators: every call works on its own copy of the receiver
        pid = "i_recv"
        p = gen.Program(pid, [("yield", "a")], named_result=True, family="il", tags={"il:value-receiver"})
        recv = ("type acc@ struct{ sum, step int }\n\nfunc (x acc@) Run(n int) (_ Iter[int]) {\n\tfor i := 0; i < n; i++ {\n\t\tx.sum += x.step + i\n\t\tYield(x.sum)\n\t}\n\treturn\n}\n\n"
                "type gbox@[T any] struct{ v T }\n\nfunc (g gbox@[T]) Twice(n int, f func(T) T) (_ Iter[T]) {\n\tfor i := 0; i < n; i++ {\n\t\tg.v = f(g.v)\n\t\tYield(g.v)\n\t}\n\treturn\n}\n\nvar accv@ = acc@{sum: 0, step: 1}\n").replace("@", pid)
        recv += ("var accw@ = acc@{sum: 5, step: 2}\nvar gbv@ = gbox@[int]{v: 3}\n").replace("@", pid)
        mk_recv = ["stepI%s(accw%s.Run(n + 2))" % (pid, pid), "stepI%s(accv%s.Run(n + 2))" % (pid, pid), "stepI%s(accv%s.Run(n + 2))" % (pid, pid)]
        mk_gen = ["stepI%s(gbv%s.Twice(n+2, func(x int) int { return x + b }))" % (pid, pid), "stepI%s(gbv%s.Twice(n+2, func(x int) int { return x + 1 }))" % (pid, pid)]
        p.helpers = gen.IL_HELPERS.replace("@", pid) + "\n" + recv + "\n" + gen.il_driver(p.name, 3, m, mk_recv) + "\n" + gen.il_driver(p.name, 2, m, mk_gen, suffix="X")
        corp.add(p)
        n += 1
        return {"programs": n, "iterators_k": k, "steps_each_m": m, "interleavings_per_program": "all schedules giving each iterator exactly m steps (k=2,m=3: 20; k=3,m=2: 90)"}

    extra = {
        "bounds": {"k": k, "m": m, "loop_bound_n": "[-1,2]",
                   "outside": "real goroutine scheduling and the race detector: goroutines are not modelled by the engine; what is decided instead is footprint non-interference (no heap cell or package-level variable written while one iterator is advanced is read or written while another is advanced), which implies schedule independence and data-race freedom for the explored programs"},
        "explanation": "per program a driver (compiled with it) drains k iterators alone, then advances fresh instances under every interleaving (forked by the executor); generator-side effects are logged to the log of the iterator being advanced; the solver decides per-iterator log equality between solo and interleaved runs for all inputs; the engine tags heap accesses with the active iterator and asserts disjoint footprints",
    }

    # the interleaving drivers live in the generated package and are run as single-world harnesses
    corp = corpus.Corpus(ctx, "c14")
    corp.driver_bin = runner.build_driver(ctx)
    counts = build(corp)
    corp.write(4, 0, -1, 2)
    corp.compile()
    corp.quarantine_unbuildable(("out",))
    hargs = []
    for d in corp.batches:
        if any(w == d for w in corp.where.values()):
            hargs += ["-harness", "verifws/out/%s" % d]
    if not hargs:
        raise CheckError("no corpus package survived compilation")
    args = engine_common(ctx)
    args[args.index("-maxpaths") + 1] = "200000"
    res = runner.run_engine(ctx, hargs + ["-drivers", "^DriveILX?_"] + args)
    # integer-range generators (the integer iterator is runtime state too) need go >= 1.22 sources
    ctx22 = runner.SubCtx(ctx, "ws22", "1.22")
    corp22 = corpus.Corpus(ctx22, "c14i")
    corp22.driver_bin = corp.driver_bin
    Y = lambda e: ("yield", e)
    int_bodies = [
        [("range", "i", None, ":=", "n", [Y("i + a")]), Y("b")],
        [("range", None, None, ":=", "n", [Y("b + 1")]), Y("a")],
        [("range", "i", None, ":=", "n + 1", [("range", "j", None, ":=", "n", [Y("i*10 + j")])])],
        [Y("a"), ("range", "i", None, ":=", "n - 1", [Y("i")]), Y("b")],
    ]
    for bi, body in enumerate(int_bodies):
        p = gen.Program("j%04d" % bi, body, named_result=True, family="ili")
        p.helpers = gen.IL_HELPERS.replace("@", p.pid) + "\n" + gen.il_driver(p.name, k, m, ["stepI%s(%s)" % (p.pid, x) for x in ["%s(a, b, n, g1, g2, g3)" % p.name, "%s(b, a, n, g1, g2, g3)" % p.name, "%s(a, a, n-1, g1, g2, g3)" % p.name][:k]])
        corp22.add(p)
    corp22.write(4, 0, -1, 2)
    corp22.compile()
    corp22.quarantine_unbuildable(("out",))
    h22 = []
    for d in corp22.batches:
        if any(w == d for w in corp22.where.values()):
            h22 += ["-harness", "verifws/out/%s" % d]
    res22 = runner.run_engine(ctx22, h22 + ["-drivers", "^DriveILX?_"] + args, name="result22") if h22 else {"drivers": [], "functions_encoded": {}}
    new, known, replayed, mism, details = 0, [], 0, 0, []
    for d in res22["drivers"]:
        d["_ws22"] = True
    res["drivers"] += res22["drivers"]
    # iterators started from one shared seq term (public seq API; compiled generators build a term per call)
    nterms = 8
    with open(os.path.join(ctx.ws, "rt/c14/zz_drivers.go"), "w") as f:
        f.write("package c14\n\n" + "\n".join("func Drive_shared_%d() { DriveShared(%d, %d, %d) }" % (ti, ti, k, m) for ti in range(nterms)) + "\n"
                + "func Drive_send_echo() { DriveSend(0, 3) }\nfunc Drive_send_relay() { DriveSend(1, 3) }\n")
    res_rt = runner.run_engine(ctx, ["-harness", "verifws/rt/c14"] + args, name="result_rt")
    for d in res_rt["drivers"]:
        d["_rt"] = True
    res["drivers"] += res_rt["drivers"]
    for kf, vf in res_rt.get("functions_encoded", {}).items():
        res["functions_encoded"][kf] = res["functions_encoded"].get(kf, 0) + vf
    for kf, vf in res22.get("functions_encoded", {}).items():
        res["functions_encoded"][kf] = res["functions_encoded"].get(kf, 0) + vf
    for d in res["drivers"]:
        if d["status"] != "violated":
            continue
        pctx = ctx22 if d.get("_ws22") else ctx
        pkg_rel = "rt/c14" if d.get("_rt") else "out/" + d["name"].rsplit(".", 1)[0].split("/")[-1]
        fp = [f for f in d["failures"] if f["kind"] == "footprint"]
        other = [f for f in d["failures"] if f["kind"] != "footprint"]
        if other:
            a, b, c, e, f = process_harness(pctx, {"drivers": [dict(d, failures=other)]}, pkg_rel, max_replay_per_driver=1,
                                            order_free="|".join("G%s$" % x for x in map_pids) or None)
            new += a; known += b; replayed += c; mism += e; details += f
        elif fp:
            # footprint conflicts cannot be replayed natively (they are an engine observation)
            new += 1
            path = runner.save_replay(ctx, d["name"] + "fp", [], {"property": ctx.pid, "driver": d["name"], "kind": "footprint", "msg": fp[0]["msg"], "model": fp[0]["model"],
                                                               "note": "engine observation: a heap cell written while one iterator was advanced was touched while another was advanced"})
            print("VIOLATION property=%s replay=%s" % (ctx.pid, path))
            details.append({"driver": d["name"], "failure": {"kind": "footprint", "msg": fp[0]["msg"][:300]}})
    for d in res["drivers"]:
        if d.get("_ws22"):
            d["_extra"] = True
    extra.update({"integer_range_programs_go122": len(corp22.where), "programs": len(corp.programs) + len(corp22.programs), "programs_compiled": len(corp.where) + len(corp22.where), "programs_rejected_by_compiler": len(corp.rejected),
                  "programs_output_unbuildable": len(corp.unbuildable), "corpus": counts, "compile_s": round(corp.compile_s, 1),
                  "heap_cells_tracked": sum(d.get("tracked_cells", 0) for d in res["drivers"]), "details": details[:20]})
    return finish(ctx, res, "model_checking", new, known, replayed, mism, extra,
                  [PROGRAM_DIM, "goroutines are not modelled: 'do not race' is decided as footprint disjointness on every explored path"],
                  floors={"drivers_holds": ctx.q(50, 200), "drivers_undecided_max": 2}, sv={"harness_pkg_of_driver": "out", "order_free": "|".join("G%s$" % x for x in map_pids) or None})


CLAIMED["C14"] = plan_C14
