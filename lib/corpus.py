"""Corpus pipeline: write programs, run the real compiler (from /repo's working tree), make the
output packages buildable by quarantining individual programs, run the engine on pairs, replay."""
import json, os, re, shutil, subprocess, time
from concurrent.futures import ThreadPoolExecutor
import runner, gen
from runner import CheckError, GOENV

BATCH = 16


IMPORT_STYLES = ["dot", "dot", "default", "renamed", "dot+seq", "default+seq-renamed"]


def import_style(pid, body):
    """every way of importing the API: dot import, default name, renamed, and files that already
    import the seq package themselves (under its own or another name)"""
    import zlib
    style = IMPORT_STYLES[zlib.crc32(pid.encode()) % len(IMPORT_STYLES)]
    if "SEQPKG." in body:
        # the program uses the seq package itself (hand-written combinator terms in a bystander)
        style = ("dot+seq", "default+seq-renamed")[zlib.crc32(pid.encode()) % 2]
        body = body.replace("SEQPKG.", "seq." if style == "dot+seq" else "sq.")
    q = {"dot": "", "dot+seq": "", "default": "co.", "renamed": "gen.", "default+seq-renamed": "co."}[style]
    if q:
        body = re.sub(r"\bYieldFrom([\(\[])", q + r"YieldFrom\1", body)
        body = re.sub(r"\bYield([\(\[])", q + r"Yield\1", body)
        body = re.sub(r"\bIter\[", q + "Iter[", body)
    imp = {"dot": '\t. "github.com/goghcrow/go-co"\n',
           "default": '\t"github.com/goghcrow/go-co"\n',
           "renamed": '\tgen "github.com/goghcrow/go-co"\n',
           "dot+seq": '\t. "github.com/goghcrow/go-co"\n\t"github.com/goghcrow/go-co/seq"\n',
           "default+seq-renamed": '\t"github.com/goghcrow/go-co"\n\tsq "github.com/goghcrow/go-co/seq"\n'}[style]
    extra = {"dot+seq": "var _ = seq.Normal[int]\n", "default+seq-renamed": "var _ = sq.Normal[int]\n"}.get(style, "")
    more = ""
    m = re.search(r"^// EXTRA-IMPORTS: (.*)$", body, flags=re.M)
    if m:
        more = "".join(("\t_ \"%s\"\n" % x[1:]) if x.startswith("_") else ("\t\"%s\"\n" % x) for x in m.group(1).split())
    return "package corp\n\nimport (\n" + more + imp + "\trt \"verifws/verifrt\"\n)\n\nvar _ = rt.Emit\nvar _ " + q + "Iter[int]\n" + extra + "\n" + body


class Corpus:
    def __init__(self, ctx, fam):
        self.ctx = ctx
        self.fam = fam
        self.programs = {}        # pid -> Program
        self.where = {}           # pid -> package dir name (under src/ and out/)
        self.rejected = {}        # pid -> compiler panic text
        self.unbuildable = {}     # pid -> first type error
        self.missing = {}         # pid -> the compiler ran without a diagnostic but wrote no file for it
        self.compile_s = 0.0
        self.twin_where = {}      # pid -> twin package dir (under twin/)
        self.driver_bin = None
        self.stage1 = False       # also produce unopt/<dir> through the verif hook

    # -- writing ---------------------------------------------------------------------------
    def add(self, prog):
        self.programs[prog.pid] = prog

    def write(self, K, extra_adv=0, nlo=-1, nhi=3, group=lambda p: p.family, batch=None):
        batch = batch or BATCH
        ws = self.ctx.ws
        groups = {}
        for pid, p in sorted(self.programs.items()):
            groups.setdefault(group(p), []).append(p)
        self.batches = []
        # native reference twins (rt.Co coroutines), printed from the same AST, plain Go packages
        twins = [(p, p.twin_source(K, extra_adv, nlo, nhi)) for p in self.programs.values()]
        twins = [(p, t) for p, t in twins if t]
        for i in range(0, len(twins), 40):
            d = "%s_%d" % (self.fam, i // 40)
            td = os.path.join(ws, "twin", d)
            os.makedirs(td, exist_ok=True)
            for p, t in twins[i:i + 40]:
                with open(os.path.join(td, "gen_%s.go" % p.pid), "w") as f:
                    f.write("package corp\n\nimport rt \"verifws/verifrt\"\n\nvar _ = rt.Emit\n\n" + t)
                self.twin_where[p.pid] = d
        for g, ps in sorted(groups.items()):
            for i in range(0, len(ps), batch):
                d = "%s_%s_%d" % (self.fam, g, i // batch)
                self._write_pkg(d, ps[i:i + batch], K, extra_adv, nlo, nhi)
                self.batches.append(d)

    def _write_pkg(self, d, ps, K, extra_adv, nlo, nhi):
        sd = os.path.join(self.ctx.ws, "src", d)
        os.makedirs(sd, exist_ok=True)
        with open(os.path.join(sd, "zz_header.go"), "w") as f:
            f.write(gen.HEADER % {"pkg": "corp"})
        for p in ps:
            with open(os.path.join(sd, "gen_%s.go" % p.pid), "w") as f:
                f.write(import_style(p.pid, p.source(K, extra_adv, nlo, nhi)))
            self.where[p.pid] = d

    # -- compiling -------------------------------------------------------------------------
    def _run_driver(self, mode, pairs):
        args = [self.driver_bin, mode]
        for s, d in pairs:
            args += [s, d]
        p = subprocess.run(args, env=GOENV, stdout=subprocess.PIPE, stderr=subprocess.PIPE, text=True, cwd=self.ctx.ws)
        res = []
        for line in p.stdout.splitlines():
            line = line.strip()
            if line.startswith("{"):
                try:
                    res.append(json.loads(line))
                except ValueError:
                    pass
        if len(res) != len(pairs):
            # the driver died (os.Exit / fatal): treat the missing pairs as failed
            done = {r["src"] for r in res}
            for s, d in pairs:
                if s not in done:
                    res.append({"src": s, "dst": d, "ok": False, "panic": "compiler process died: " + (p.stderr or p.stdout)[-300:]})
        return res

    def _compile_dir(self, d):
        """compile one package dir; on a panic bisect down to single programs"""
        ws = self.ctx.ws
        src, out = os.path.join(ws, "src", d), os.path.join(ws, "out", d)
        shutil.rmtree(out, ignore_errors=True)
        shutil.rmtree(out + "_tmp", ignore_errors=True)
        r = self._run_driver("compile", [(src, out)])[0]
        shutil.rmtree(out + "_tmp", ignore_errors=True)
        if r["ok"] and os.path.isdir(out):
            for f in sorted(os.listdir(src)):
                if f.startswith("gen_") and not os.path.exists(os.path.join(out, f)):
                    pid = f[4:-3]
                    self.missing[pid] = "no output file although the compiler reported no problem"
                    self.where.pop(pid, None)
            return [d]
        files = sorted(f for f in os.listdir(src) if f.startswith("gen_"))
        shutil.rmtree(out, ignore_errors=True)
        if len(files) <= 1:
            for f in files:
                pid = f[4:-3]
                self.rejected[pid] = r.get("panic", "no output")[:300]
                self.where.pop(pid, None)
            shutil.rmtree(src, ignore_errors=True)
            return []
        half = len(files) // 2
        dirs = []
        for suffix, part in (("a", files[:half]), ("b", files[half:])):
            nd = d + suffix
            nsrc = os.path.join(ws, "src", nd)
            os.makedirs(nsrc)
            shutil.copy(os.path.join(src, "zz_header.go"), nsrc)
            for f in part:
                shutil.move(os.path.join(src, f), os.path.join(nsrc, f))
                self.where[f[4:-3]] = nd
            dirs.append(nd)
        shutil.rmtree(src, ignore_errors=True)
        okdirs = []
        for nd in dirs:
            okdirs += self._compile_dir(nd)
        return okdirs

    def check_sources(self):
        """the generated sources must be valid Go (a failure here is a bug of the corpus generator)"""
        p = runner.sh(["go", "build", "-gcflags=-e"] + ["./src/" + d for d in self.batches], cwd=self.ctx.ws, check=False)
        if p.returncode != 0:
            raise CheckError("corpus generator produced invalid Go:\n" + p.stdout[-3000:])

    def compile(self):
        t0 = time.time()
        self.check_sources()
        with ThreadPoolExecutor(max_workers=runner.NCPU) as ex:
            res = list(ex.map(self._compile_dir, self.batches))
        self.batches = [d for ds in res for d in ds]
        if self.stage1:
            pairs = [(os.path.join(self.ctx.ws, "src", d), os.path.join(self.ctx.ws, "unopt", d)) for d in self.batches]

            def one(pr):
                return self._run_driver("stage1", [pr])[0]

            with ThreadPoolExecutor(max_workers=runner.NCPU) as ex:
                rs = list(ex.map(one, pairs))
            self.stage1_failed = [r for r in rs if not r["ok"]]
        self.compile_s = time.time() - t0

    # -- buildability ----------------------------------------------------------------------
    def quarantine_unbuildable(self, trees=("out",)):
        """go build the generated packages; remove programs whose generated file has a type error
        (from src/, out/, unopt/), until everything builds. Returns the errors seen."""
        ws = self.ctx.ws
        for tree in trees:
            for _ in range(8):
                pats = ["./%s/%s" % (tree, d) for d in self.batches if os.path.isdir(os.path.join(ws, tree, d))
                        and any(f.startswith("gen_") for f in os.listdir(os.path.join(ws, tree, d)))]
                if not pats:
                    break
                p = runner.sh(["go", "build", "-gcflags=-e"] + pats, cwd=ws, check=False)
                if p.returncode == 0:
                    break
                bad = {}
                for m in re.finditer(r"^%s/([\w]+)/gen_([\w]+)\.go:(\d+):(\d+): (.*)$" % tree, p.stdout, re.M):
                    bad.setdefault(m.group(2), "%s: %s" % (tree, m.group(5)))
                if not bad:
                    raise CheckError("generated packages do not build and no program can be blamed:\n" + p.stdout[-2000:])
                for pid, msg in bad.items():
                    self.unbuildable[pid] = msg
                    self.where.pop(pid, None)
                    for t in ("src", "out", "unopt"):
                        for d in self.batches:
                            fp = os.path.join(ws, t, d, "gen_%s.go" % pid)
                            if os.path.exists(fp):
                                os.remove(fp)
            else:
                raise CheckError("generated packages still do not build after 8 quarantine rounds")

    def pairs(self, ref_tree="src", impl_tree="out"):
        out = []
        for d in self.batches:
            if any(w == d for w in self.where.values()):
                out += ["-pair", "verifws/%s/%s=verifws/%s/%s" % (ref_tree, d, impl_tree, d)]
        return out

    def pid_of_driver(self, name):
        m = re.search(r"Drive_G(\w+)$", name)
        return m.group(1) if m else None


def process_two_world(ctx, corp, res, impl_tree="out", max_replay=40, ref_tree="src"):
    """Replay violations natively (implementation world), classify against known findings."""
    by_pkg = {}
    for d in res["drivers"]:
        if d["status"] != "violated":
            continue
        pkg = d["name"].rsplit(".", 1)[0]            # verifws/src/<dir>
        dirn = pkg.split("/")[-1]
        fn = d["name"].split(".")[-1]
        f = d["failures"][0]
        by_pkg.setdefault(dirn, []).append((fn, f, d))
    new, known, details, mismatches, replayed = 0, [], [], 0, 0
    budget = max_replay
    for dirn, cases in sorted(by_pkg.items()):
        todo = cases[:max(0, budget)]
        budget -= len(todo)
        nat = {}
        testfile = None
        if todo:
            nat, testfile = runner.native_replay(ctx, "%s/%s" % (impl_tree, dirn), [(fn, fn, f["model"]) for fn, f, d in todo])
        for fn, f, d in cases:
            pid = corp.pid_of_driver(d["name"])
            prog = corp.programs.get(pid)
            tags = prog.tags if prog else set()
            n = nat.get(fn)
            confirmed = None
            if n is not None:
                replayed += 1
                confirmed = runner.norm_events(f["logs"].get("1", [])) == [e.strip() for e in n["logs"].get("0", [])]
                if not confirmed and n.get("panic") not in ("", "<nil>", None):
                    # uncaught native panic: engine logs an extra PANIC event at the end
                    pred = runner.norm_events(f["logs"].get("1", []))
                    confirmed = pred[:-1] == [e.strip() for e in n["logs"].get("0", [])] and pred[-1].startswith("6 ")
            if confirmed is False and "map-order" in tags:
                # native map iteration order is random: compare as multisets, and if even that
                # differs (order-dependent program) the native run simply does not confirm
                pred = sorted(runner.norm_events(f["logs"].get("1", [])))
                confirmed = True if pred == sorted(e.strip() for e in n["logs"].get("0", [])) else None
            if confirmed is False:
                mismatches += 1
                print("ERROR engine-mismatch property=%s driver=%s: native implementation log differs from the engine's prediction" % (ctx.pid, d["name"]))
                details.append({"driver": d["name"], "engine_mismatch": True, "engine_impl_log": f["logs"].get("1"), "native": n})
                continue
            twin_ok = None
            if pid in corp.twin_where and ref_tree == "src" and "map-order" not in tags:
                tn, _ = runner.native_replay(ctx, "twin/" + corp.twin_where[pid], [(fn, "Drive_TG" + pid, f["model"])])
                t = tn.get(fn)
                if t is not None:
                    twin_ok = runner.norm_events(f["logs"].get("0", [])) == [e.strip() for e in t["logs"].get("0", [])]
                    if not twin_ok and t.get("panic") not in ("", "<nil>", None):
                        pred = runner.norm_events(f["logs"].get("0", []))
                        twin_ok = pred[:-1] == [e.strip() for e in t["logs"].get("0", [])] and pred[-1].startswith("6 ")
                    if not twin_ok:
                        mismatches += 1
                        print("ERROR engine-mismatch property=%s driver=%s: the native reference twin (goroutine coroutine) disagrees with the engine's reference log" % (ctx.pid, d["name"]))
                        details.append({"driver": d["name"], "engine_mismatch": "reference twin", "engine_ref_log": f["logs"].get("0"), "native_twin": t})
                        continue
            k = runner.match_known(ctx.pid, d["name"], f, tags)
            src_file = os.path.join(ctx.ws, ref_tree, dirn, "gen_%s.go" % pid)
            out_file = os.path.join(ctx.ws, impl_tree, dirn, "gen_%s.go" % pid)
            if k:
                known.append({"finding": k["finding_id"], "driver": d["name"], "tags": sorted(tags)})
                print("KNOWN-FINDING: property=%s %s [%s] program=G%s" % (ctx.pid, k["what"], k["finding_id"], pid))
            else:
                new += 1
                meta = {"property": ctx.pid, "driver": d["name"], "kind": f["kind"], "msg": f["msg"], "model": f["model"],
                        "reference_log(engine, coroutine semantics)": f["logs"].get("0"), "implementation_log(engine)": f["logs"].get("1"),
                        "native_implementation_run": n, "natively_confirmed": bool(confirmed), "reference_confirmed_by_native_twin": twin_ok, "tags": sorted(tags),
                        "rerun": "place the saved source in a package of a module that replaces go-co with /repo, compile with rewriter.Compile, run Drive_G%s with verifrt.SetVec(model)" % pid}
                files = [src_file, out_file] + ([testfile] if testfile else [])
                path = runner.save_replay(ctx, d["name"] + json.dumps(f["model"], sort_keys=True), files, meta)
                print("VIOLATION property=%s replay=%s" % (ctx.pid, path))
            details.append({"driver": d["name"], "known": bool(k), "natively_confirmed": confirmed, "reference_confirmed_by_native_twin": twin_ok, "tags": sorted(tags),
                            "failure": {"kind": f["kind"], "msg": f["msg"], "model": f["model"], "ref": f["logs"].get("0"), "impl": f["logs"].get("1")}})
    return new, known, replayed, mismatches, details


def twin_validate(ctx, corp, res, max_pkgs=3, per_pkg=12):
    """Reference-side self-validation: for sampled decided drivers the engine's reference log
    (coroutine semantics of DESIGN 2) must equal the log of the native twin, in which the same body
    runs as a goroutine-backed coroutine (verifrt.Co). Returns (validated, mismatches)."""
    by_pkg = {}
    for d in res["drivers"]:
        if d["status"] != "holds" or not d.get("samples") or d.get("_extra"):
            continue
        pid = corp.pid_of_driver(d["name"])
        if pid not in corp.twin_where:
            continue
        if "map-order" in corp.programs[pid].tags:
            continue  # native map iteration order is random
        smp = d["samples"][0]
        if not smp.get("logs"):
            continue
        by_pkg.setdefault(corp.twin_where[pid], []).append((pid, smp))
    validated, mism = 0, 0
    pkgs = sorted(by_pkg)[:max_pkgs * (3 if ctx.thorough else 1)]
    for d in pkgs:
        cases = by_pkg[d][:per_pkg]
        nat, _ = runner.native_replay(ctx, "twin/" + d, [(pid, "Drive_TG" + pid, smp.get("model") or {}) for pid, smp in cases])
        for pid, smp in cases:
            t = nat.get(pid)
            if t is None:
                continue
            validated += 1
            if runner.norm_events(smp["logs"].get("0", [])) != [e.strip() for e in t["logs"].get("0", [])]:
                mism += 1
                print("ERROR engine-mismatch property=%s program=G%s: the native reference twin prints a different log than the engine's reference semantics" % (ctx.pid, pid))
                print("  engine ref:", json.dumps(smp["logs"].get("0"))[:500])
                print("  native twin:", json.dumps(t)[:500])
    return validated, mism
