"""Corpus generator: Go generator functions (source form, co API) + drivers, from a small
statement AST. One program = one file gen_<id>.go with one generator G<id> (plus helpers) and one
driver Drive_G<id>.

Statements (tuples):
  ("eff", n)                      rt.Emit(rt.EFF, n)
  ("effv", n, expr)               rt.Emit(rt.EFF+100+n... ) value effect: rt.Emit(40, expr)
  ("yield", expr)                 Yield(expr)
  ("yieldfrom", expr)             YieldFrom(expr)
  ("if", cond, then, els)         els: None | list | [("if", ...)] (printed as else-if)
  ("switch", init, tag, [(vals, body)...], default|None)
  ("tswitch", bind, expr, [(type, body)...], default|None)
  ("for", init, cond, post, body) init/post: None | stmt ; cond: None | expr
  ("block", body)
  ("break",) ("continue",) ("return",)
  ("decl", name, expr) ("assign", name, expr) ("inc", name) ("raw", text)
  ("range", key, val, tok, expr, body)    key/val may be None or "_"
"""
import random

HEADER = """package %(pkg)s
"""

C01_HELPERS_TEXT = """func H2(x int) (_ Iter[int]) {
	Yield(x + 1000)
	Yield(x + 2000)
	return
}
"""

SIG = "(a, b, n int, g1, g2, g3 bool)"
CALLARGS = "(a, b, n, g1, g2, g3)"


def p_stmts(stmts, ind):
    out = []
    for s in stmts:
        out.extend(p_stmt(s, ind))
    return out


def p_simple(s):
    """one-line form for for-init/post"""
    if s is None:
        return ""
    k = s[0]
    if k == "yield":
        # ("yield", e, "inst"): explicitly instantiated call
        return ("Yield[int](%s)" if len(s) > 2 and s[2] == "inst" else "Yield(%s)") % s[1]
    if k == "yieldfrom":
        return ("YieldFrom[int](%s)" if len(s) > 2 and s[2] == "inst" else "YieldFrom(%s)") % s[1]
    if k == "decl":
        return "%s := %s" % (s[1], s[2])
    if k == "assign":
        return "%s = %s" % (s[1], s[2])
    if k == "inc":
        return "%s++" % s[1]
    if k == "eff":
        return "rt.Emit(rt.EFF, %d)" % s[1]
    if k == "effv":
        return "rt.Emit(%d, %s)" % (40 + s[1], s[2])
    if k == "raw":
        return s[1]
    raise ValueError("not simple: %r" % (s,))


def p_stmt(s, ind):
    t = "\t" * ind
    k = s[0]
    if k in ("yield", "yieldfrom", "decl", "assign", "inc", "eff", "effv"):
        return [t + p_simple(s)]
    if k in ("raw", "rawstmts", "rawif"):
        return [t + l for l in s[1].split("\n")]
    if k == "break":
        return [t + "break"]
    if k == "continue":
        return [t + "continue"]
    if k == "return":
        return [t + "return%s" % (" " + s[1] if len(s) > 1 and s[1] else "")]
    if k == "block":
        return [t + "{"] + p_stmts(s[1], ind + 1) + [t + "}"]
    if k == "if":
        _, cond, then, els = s
        out = [t + "if %s {" % cond] + p_stmts(then, ind + 1)
        while els is not None and len(els) == 1 and els[0][0] == "if" and els[0][-1] != "noelif":
            _, c2, th2, els2 = els[0][:4]
            out += [t + "} else if %s {" % c2] + p_stmts(th2, ind + 1)
            els = els2
        if els is not None:
            out += [t + "} else {"] + p_stmts(els, ind + 1)
        out += [t + "}"]
        return out
    if k == "switch":
        _, init, tag, cases, default = s
        head = "switch "
        if init is not None:
            head += p_simple(init) + "; "
        head += (tag or "") + " {"
        out = [t + head.replace("  ", " ")]
        for vals, body in cases:
            out += [t + "case %s:" % vals] + p_stmts(body, ind + 1)
        if default is not None:
            out += [t + "default:"] + p_stmts(default, ind + 1)
        out += [t + "}"]
        return out
    if k == "tswitch":
        _, bind, expr, cases, default = s
        head = "switch %s%s.(type) {" % ((bind + " := ") if bind else "", expr)
        out = [t + head]
        for ty, body in cases:
            out += [t + "case %s:" % ty] + p_stmts(body, ind + 1)
        if default is not None:
            out += [t + "default:"] + p_stmts(default, ind + 1)
        out += [t + "}"]
        return out
    if k == "for":
        _, init, cond, post, body = s
        if init is None and post is None:
            head = "for %s{" % ((cond + " ") if cond else "")
        else:
            head = "for %s; %s; %s {" % (p_simple(init), cond or "", p_simple(post))
        return [t + head] + p_stmts(body, ind + 1) + [t + "}"]
    if k == "range":
        _, key, val, tok, expr, body = s
        if key is None and val is None:
            head = "for range %s {" % expr
        elif val is None:
            head = "for %s %s range %s {" % (key, tok, expr)
        else:
            head = "for %s, %s %s range %s {" % (key, val, tok, expr)
        return [t + head] + p_stmts(body, ind + 1) + [t + "}"]
    raise ValueError("unknown stmt %r" % (s,))


# ---------------------------------------------------------------------------------------------
# syntactic predicates (feature tags)


def walk(stmts, fn, ctx=()):
    for i, s in enumerate(stmts):
        fn(s, ctx, stmts, i)
        k = s[0]
        if k == "block":
            walk(s[1], fn, ctx + (("block", s),))
        elif k == "if":
            walk(s[2], fn, ctx + (("if", s),))
            if s[3] is not None:
                walk(s[3], fn, ctx + (("if", s),))
        elif k == "switch":
            for _, body in s[3]:
                walk(body, fn, ctx + (("switch", s),))
            if s[4] is not None:
                walk(s[4], fn, ctx + (("switch", s),))
        elif k == "tswitch":
            for _, body in s[3]:
                walk(body, fn, ctx + (("switch", s),))
            if s[4] is not None:
                walk(s[4], fn, ctx + (("switch", s),))
        elif k == "for":
            walk(s[4], fn, ctx + (("for", s),))
        elif k == "range":
            walk(s[5], fn, ctx + (("for", s),))


def contains_yield(stmts):
    found = [False]

    def f(s, ctx, lst, i):
        if s[0] in ("yield", "yieldfrom"):
            found[0] = True
        if s[0] == "for":
            for part in (s[1], s[3]):
                if part is not None and part[0] in ("yield", "yieldfrom"):
                    found[0] = True
        if s[0] == "switch" and s[1] is not None and s[1][0] in ("yield", "yieldfrom"):
            found[0] = True
        if s[0] in ("raw", "rawstmts", "rawif") and ("Yield(" in s[1] or "YieldFrom(" in s[1]):
            found[0] = True

    walk(stmts, f)
    return found[0]


def stmt_yields(s):
    return contains_yield([s])


def tags_of(body):
    """feature tags used for reporting and for matching known findings (computed on the generator's
    own AST; positions are tracked explicitly because equal tuples may be the same object)"""
    tags = set()

    def rec(lst, levels):
        # levels: enclosing statement lists, innermost last:
        # [owner_kind, owner_node, yield_precedes, owner_is_followed_by_more_statements]
        pre = False
        for si, s in enumerate(lst):
            k = s[0]
            fol = si < len(lst) - 1
            here = levels + [[None, None, pre]]
            if k == "break":
                # innermost breakable construct
                idx = None
                for j in range(len(levels) - 1, -1, -1):
                    if levels[j][0] in ("switch", "for"):
                        idx = j
                        break
                if idx is not None and levels[idx][0] == "switch" and stmt_yields(levels[idx][1]):
                    tags.add("break-in-yielding-switch")
                    # a yield-containing statement precedes the break inside the same clause, at the
                    # level of the break or of any enclosing statement up to the clause
                    after = pre or any(l[2] for l in levels[idx:])
                    # ... or the break sits inside a yield-containing statement of the clause that
                    # is followed by more statements (that statement becomes a thunk of a Combine)
                    wrapped = any(len(l) > 3 and l[3] and l[1] is not None and stmt_yields(l[1]) for l in levels[idx + 1:])
                    if after or wrapped:
                        tags.add("break-in-yielding-switch-after-yield")
            if k == "continue":
                for j in range(len(levels) - 1, -1, -1):
                    if levels[j][0] == "for":
                        fs = levels[j][1]
                        if fs[0] == "for" and fs[3] is not None and fs[3][0] in ("yield", "yieldfrom"):
                            tags.add("continue+yielding-post")
                        break
            if k == "for" and s[3] is not None and s[3][0] in ("yield", "yieldfrom"):
                tags.add("yielding-post")
            if k == "for" and s[1] is not None and s[1][0] in ("yield", "yieldfrom"):
                tags.add("yielding-init")
            if k == "switch" and stmt_yields(s):
                tags.add("yielding-switch")
                if s[4] is None:
                    tags.add("yielding-switch-no-default")
            if k == "yieldfrom":
                tags.add("yieldfrom")
            # recurse; the entry for the *current* list records whether a yield precedes s in it
            cur = levels[:-1] + [[levels[-1][0], levels[-1][1], pre] + levels[-1][3:]] if levels else []
            if k == "block":
                rec(s[1], cur + [["block", s, False, fol]])
            elif k == "if":
                rec(s[2], cur + [["if", s, False, fol]])
                if s[3] is not None:
                    rec(s[3], cur + [["if", s, False, fol]])
            elif k in ("switch", "tswitch"):
                for _, bdy in s[3]:
                    rec(bdy, cur + [["switch", s, False, fol]])
                if s[4] is not None:
                    rec(s[4], cur + [["switch", s, False, fol]])
            elif k == "for":
                rec(s[4], cur + [["for", s, False, fol]])
            elif k == "range":
                rec(s[5], cur + [["for", s, False, fol]])
            elif k == "rawif":
                for child in s[2]:
                    rec(child, cur + [["if", s, False, fol]])
            elif k == "rawstmts":
                # a switch / type switch printed as text; its clause bodies are the child lists
                if stmt_yields(s):
                    tags.add("yielding-switch")
                for child in s[2]:
                    rec(child, cur + [["switch", s, False, fol]])
            if stmt_yields(s):
                pre = True

    rec(body, [["func", None, False, False]])
    return tags


# ---------------------------------------------------------------------------------------------
# program assembly


TWIN_HELPERS = {
    "H2": """func TH2(x int) *rt.Co[int] {
	return rt.NewCo(func(yield_ func(int)) {
		yield_(x + 1000)
		yield_(x + 2000)
	})
}
""",
}


TWIN_HELPERS["c05"] = """func TH1(x int) *rt.Co[int] {
	return rt.NewCo(func(yield_ func(int)) {
		for i := 0; i < 3; i++ {
			rt.Emit(rt.EFF, 700+i)
			yield_(x + 1000*(i+1))
		}
		rt.Emit(rt.EFF, 709)
	})
}

func TH2(x int) *rt.Co[int] {
	return rt.NewCo(func(yield_ func(int)) {
		rt.Emit(rt.EFF, 710)
		yield_(x + 1)
		rt.Emit(rt.EFF, 711)
		yield_(x + 2)
	})
}

func TH3(x int) *rt.Co[int] {
	return rt.NewCo(func(yield_ func(int)) {
		rt.Emit(rt.EFF, 720)
		if x != x {
			yield_(0)
		}
	})
}

func TH4(x int) *rt.Co[int] {
	return rt.NewCo(func(yield_ func(int)) {
		yield_(x + 5)
		rt.YieldFromCo(yield_, TH2(x+10))
		rt.Emit(rt.EFF, 730)
		rt.YieldFromCo(yield_, TH3(x))
		yield_(x + 6)
	})
}

func TR1(d, x int) *rt.Co[int] {
	return rt.NewCo(func(yield_ func(int)) {
		rt.Emit(rt.EFF, 740)
		if d <= 0 {
			return
		}
		yield_(x + d)
		rt.YieldFromCo(yield_, TR1(d-1, x+100))
		yield_(x - d)
	})
}

func TR2(x int) *rt.Co[int] {
	return rt.NewCo(func(yield_ func(int)) {
		for {
			yield_(x)
			x++
		}
	})
}

func TMK(x int) *rt.Co[int] {
	rt.Emit(rt.EFF, 750)
	return TH2(x)
}
"""

TWIN_HELPERS["c18"] = """func PT(x int) *[3]int {
	rt.Emit(rt.EFF, 985)
	if x&1 == 0 {
		panic(x + 7)
	}
	return &[3]int{1, 2, 3}
}

func PS(x int) []int {
	rt.Emit(rt.EFF, 986)
	if x&1 == 0 {
		panic("ps")
	}
	return []int{4, 5}
}

func TH3(x int) *rt.Co[int] {
	return rt.NewCo(func(yield_ func(int)) {
		yield_(x + 3000)
		if x%2 == 0 {
			panic(x + 1)
		}
		yield_(x + 4000)
	})
}

func TPN(x int) *rt.Co[int] {
	return rt.NewCo(func(yield_ func(int)) {
		yield_(x + 5000)
		if x%2 == 0 {
			panic(nil)
		}
		yield_(x + 6000)
	})
}
""" + TWIN_HELPERS["H2"]

_TW_CALL = __import__("re").compile(r"\b(H[1-4]|R[12]|MK|PN)\(")


def twin_body(body, lax=False):
    """Yield(e) -> yield_(e), YieldFrom(H(..)) -> rt.YieldFromCo(yield_, TH(..)), return -> return;
    returns None if the body cannot be twinned (raw text mentioning the co API)"""
    out = []
    for s in body:
        k = s[0]
        if k == "yield":
            out.append(("raw", "yield_(%s)" % s[1]))
        elif k == "yieldfrom":
            e = s[1]
            if not lax and not e.startswith("H2("):
                return None
            out.append(("raw", "rt.YieldFromCo(yield_, %s)" % _TW_CALL.sub(lambda m: "T" + m.group(0), e)))
        elif k == "return":
            out.append(("raw", "return"))
        elif k in ("raw", "rawstmts", "rawif"):
            if "Yield" in s[1] or "Iter[" in s[1] or ("MoveNext" in s[1] and not lax):
                return None
            out.append((k, _TW_CALL.sub(lambda m: "T" + m.group(0), s[1])) + tuple(s[2:]))
        elif k == "block":
            b = twin_body(s[1], lax)
            if b is None:
                return None
            out.append(("block", b))
        elif k == "if":
            a = twin_body(s[2], lax)
            b = twin_body(s[3], lax) if s[3] is not None else None
            if a is None or (s[3] is not None and b is None):
                return None
            out.append(("if", s[1], a, b))
        elif k in ("switch", "tswitch"):
            init = s[1]
            if k == "switch" and init is not None:
                ib = twin_body([init], lax)
                if ib is None:
                    return None
                init = ib[0]
            cases = []
            for v, b in s[3]:
                tb = twin_body(b, lax)
                if tb is None:
                    return None
                cases.append((v, tb))
            d = None
            if s[4] is not None:
                d = twin_body(s[4], lax)
                if d is None:
                    return None
            out.append((k, init, s[2], cases, d))
        elif k == "for":
            parts = []
            for part in (s[1], s[3]):
                if part is None:
                    parts.append(None)
                    continue
                pb = twin_body([part], lax)
                if pb is None:
                    return None
                parts.append(pb[0])
            b = twin_body(s[4], lax)
            if b is None:
                return None
            out.append(("for", parts[0], s[2], parts[1], b))
        elif k == "range":
            b = twin_body(s[5], lax)
            if b is None:
                return None
            out.append(("range", s[1], s[2], s[3], s[4], b))
        else:
            out.append(s)
    return out


class Program:
    def __init__(self, pid, body, helpers="", named_result=False, tags=None, family="main", ret_type="int", driver=None, note=""):
        self.pid = pid
        self.body = body
        if "H2(" in repr(body) and "func H2(" not in (helpers or ""):
            helpers = C01_HELPERS_TEXT + ("\n" + helpers if helpers else "")
        self.helpers = helpers
        self.named_result = named_result
        self.tags = set(tags or ()) | tags_of(body)
        self.family = family
        self.ret_type = ret_type
        self.driver = driver  # custom driver text or None
        self.note = note

    @property
    def name(self):
        return "G%s" % self.pid

    def twin_source(self, K, extra_adv=0, nlo=-1, nhi=3):
        """native reference twin (goroutine coroutine, rt.Co): the same body with Yield(e) printed as
        yield_(e); None when the program uses things the twin printer does not cover"""
        if getattr(self, "standalone_full", None) or getattr(self, "standalone", None):
            return None
        key = getattr(self, "twin_key", None)
        if self.driver and not getattr(self, "twin_driver", None):
            return None
        helpers = ""
        if key:
            helpers = TWIN_HELPERS[key]
        elif self.helpers:
            if self.helpers.strip() != C01_HELPERS_TEXT.strip():
                return None
            helpers = TWIN_HELPERS["H2"]
        tb = twin_body(self.body, lax=bool(key))
        if tb is None:
            return None
        name = "T" + self.name
        lines = ["func %s%s *rt.Co[%s] {" % (name, SIG, self.ret_type), "\treturn rt.NewCo(func(yield_ func(%s)) {" % self.ret_type]
        if getattr(self, "form", "func") in ("lit", "nested"):
            # the source body is a function literal without parameters: a, b, .. are captured
            lines += p_stmts(tb, 2)
        else:
            # the parameters live in the scope of the body block (a multi-value ':=' re-assigns them)
            lines += ["\t\tfunc%s {" % SIG] + p_stmts(tb, 3) + ["\t\t}(a, b, n, g1, g2, g3)"]
        lines += ["\t})", "}", ""]
        if helpers:
            lines.append(helpers)
        lines.append(getattr(self, "twin_driver", None) or std_driver(name, K, extra_adv, nlo, nhi, self.ret_type))
        text = "\n".join(lines) + "\n"
        for h in ("H1", "H2", "H3", "H4", "R1", "R2", "PT", "PS", "PN", "MK"):
            text = text.replace(h + "(", "%s_%s(" % (h, self.pid))
        return text

    def source(self, K, extra_adv=0, nlo=-1, nhi=3):
        if getattr(self, "standalone_full", None):
            return self.standalone_full
        if getattr(self, "standalone", None):
            text = self.standalone.replace("@", self.pid) + "\n" + std_driver(self.name, K, extra_adv, nlo, nhi, self.ret_type)
            return text
        form = getattr(self, "form", "func")
        T = self.ret_type
        body_named = p_stmts(self.body, 1)
        body_unnamed = [l + " nil" if l.strip() == "return" else l for l in p_stmts(self.body, 1)]
        lines = []
        if getattr(self, "doc", None) and form == "func":
            lines.append(self.doc)  # a doc comment on the generator declaration
        if form == "func":
            if self.named_result:
                lines.append("func %s%s (_ Iter[%s]) {" % (self.name, SIG, T))
                lines += body_named + ["\treturn"]
            else:
                lines.append("func %s%s Iter[%s] {" % (self.name, SIG, T))
                lines += body_unnamed + ["\treturn nil"]
            lines.append("}")
        elif form == "lit":
            # the generator is a function literal capturing the parameters of a plain function
            lines.append("func %s%s Iter[%s] {" % (self.name, SIG, T))
            lines.append("\tgen := func() Iter[%s] {" % T)
            lines += ["\t" + l for l in body_unnamed] + ["\t\treturn nil", "\t}", "\treturn gen()", "}"]
        elif form == "method":
            lines.append("type recv%s struct {\n\ta, b, n       int\n\tg1, g2, g3 bool\n}\n" % self.pid)
            lines.append("func (r recv%s) Gen() (_ Iter[%s]) {" % (self.pid, T))
            lines.append("\ta, b, n, g1, g2, g3 := r.a, r.b, r.n, r.g1, r.g2, r.g3\n\t_, _, _, _, _, _ = a, b, n, g1, g2, g3")
            lines += body_named + ["\treturn", "}", ""]
            lines.append("func %s%s Iter[%s] {\n\treturn recv%s{a, b, n, g1, g2, g3}.Gen()\n}" % (self.name, SIG, T, self.pid))
        elif form == "ptrmethod":
            lines.append("type recv%s struct {\n\ta, b, n       int\n\tg1, g2, g3 bool\n}\n" % self.pid)
            lines.append("func (r *recv%s) Gen() Iter[%s] {" % (self.pid, T))
            lines.append("\ta, b, n, g1, g2, g3 := r.a, r.b, r.n, r.g1, r.g2, r.g3\n\t_, _, _, _, _, _ = a, b, n, g1, g2, g3")
            lines += body_unnamed + ["\treturn nil", "}", ""]
            lines.append("func %s%s Iter[%s] {\n\treturn (&recv%s{a, b, n, g1, g2, g3}).Gen()\n}" % (self.name, SIG, T, self.pid))
        elif form == "generic":
            lines.append("func gg%s[E any](_ E, a, b, n int, g1, g2, g3 bool) (_ Iter[%s]) {" % (self.pid, T))
            lines += body_named + ["\treturn", "}", ""]
            lines.append("func %s%s Iter[%s] {\n\treturn gg%s(\"x\", a, b, n, g1, g2, g3)\n}" % (self.name, SIG, T, self.pid))
        elif form == "gmethod":
            # method of a generic type, the element type comes from the receiver's type argument
            lines.append("type grecv%s[E any] struct {\n\ta, b, n       E\n\tg1, g2, g3 bool\n}\n" % self.pid)
            lines.append("func (r *grecv%s[E]) Gen(conv func(E) int) (_ Iter[%s]) {" % (self.pid, T))
            lines.append("\ta, b, n, g1, g2, g3 := conv(r.a), conv(r.b), conv(r.n), r.g1, r.g2, r.g3\n\t_, _, _, _, _, _ = a, b, n, g1, g2, g3")
            lines += body_named + ["\treturn", "}", ""]
            lines.append("func %s%s Iter[%s] {\n\treturn (&grecv%s[int]{a, b, n, g1, g2, g3}).Gen(func(x int) int { return x })\n}" % (self.name, SIG, T, self.pid))
        elif form == "nested":
            # a generator that defines a function-literal generator and delegates to it
            lines.append("func %s%s (_ Iter[%s]) {" % (self.name, SIG, T))
            lines.append("\tinner := func() Iter[%s] {" % T)
            lines += ["\t" + l for l in body_unnamed] + ["\t\treturn nil", "\t}", "\tYieldFrom(inner())", "\treturn", "}"]
        else:
            raise ValueError(form)
        lines.append("")
        if self.helpers:
            lines.append(self.helpers)
            lines.append("")
        lines.append(self.driver if self.driver else std_driver(self.name, K, extra_adv, nlo, nhi, self.ret_type))
        text = "\n".join(lines) + "\n"
        # helper functions are private to the program: make their names unique in the package
        for h in ("H1", "H2", "H3", "H4", "R1", "R2", "PT", "PS", "PN", "MK"):
            text = text.replace(h + "(", "%s_%s(" % (h, self.pid))
        return text


FORMS = ["func", "func", "func", "lit", "method", "ptrmethod", "generic", "nested", "gmethod"]


def std_driver(name, K, extra_adv, nlo, nhi, ret_type="int"):
    emit = "rt.Emit(rt.YIELD, it.Current())" if ret_type == "int" else "rt.EmitAny(rt.YIELD, it.Current())"
    peek = emit.replace("rt.YIELD", "rt.RESULT")
    if ret_type == "struct{}":
        # an element type with one value: only the evaluation of the yielded expression is observable
        emit, peek = "_ = it.Current()\n\t\trt.Emit(rt.YIELD, 0)", "_ = it.Current()"
    if ret_type == "func() int":
        # the consumer calls the yielded function: which receiver / callee it was bound to is observable
        emit, peek = "rt.Emit(rt.YIELD, it.Current()())", "_ = it.Current()"
    return """func Drive_%(name)s() {
	a, b, n := rt.NondetInt(1), rt.NondetInt(2), rt.NondetInt(3)
	g1, g2, g3 := rt.NondetBool(4), rt.NondetBool(5), rt.NondetBool(6)
	rt.Assume(n >= %(nlo)d && n <= %(nhi)d)
	it := %(name)s(a, b, n, g1, g2, g3)
	rt.Emit(rt.CREATED, 0)
	%(peek)s // reading before the first advance runs nothing
	extra := %(extra)d
	for k := 0; k < %(K)d; k++ {
		rt.Emit(rt.ADV_BEGIN, k)
		ok := it.MoveNext()
		if !ok {
			rt.Emit(rt.ADV_END, 0)
			if extra == 0 {
				break
			}
			extra--
			continue
		}
		rt.Emit(rt.ADV_END, 1)
		%(emit)s
	}
	rt.Emit(rt.END, 0)
}""" % {"name": name, "K": K, "extra": extra_adv, "nlo": nlo, "nhi": nhi, "emit": emit, "peek": peek}


# ---------------------------------------------------------------------------------------------
# bounded-exhaustive enumeration over the reduced alphabet


class Ctr:
    def __init__(self):
        self.y = 0
        self.e = 0
        self.g = 0
        self.v = 0

    def yield_expr(self, loopvars):
        self.y += 1
        base = loopvars[-1] if loopvars else ("a" if self.y % 2 else "b")
        return "%s + %d" % (base, self.y * 10)

    def eff(self):
        self.e += 1
        return self.e

    def guard(self):
        self.g += 1
        return ["g1", "g2", "g3", "a > b", "a&1 == 0", "b > 3"][(self.g - 1) % 6]

    def var(self):
        self.v += 1
        return "i%d" % self.v


def enum_lists(size, in_loop, in_switch, depth):
    """yield abstract statement lists with exactly `size` nodes. Abstract nodes:
    E Y IF(then) IFE(then,else) FOR(body) INF(body) SW(case,default|None) BLK(body) BRK CNT RET"""
    if size == 0:
        yield []
        return
    for first_size in range(1, size + 1):
        for first in enum_stmt(first_size, in_loop, in_switch, depth):
            # nothing after an unconditional jump
            if first[0] in ("BRK", "CNT", "RET") and size - first_size > 0:
                continue
            for rest in enum_lists(size - first_size, in_loop, in_switch, depth):
                yield [first] + rest


def enum_stmt(size, in_loop, in_switch, depth):
    if size == 1:
        yield ("E",)
        yield ("Y",)
        if in_loop or in_switch:
            yield ("BRK",)
        if in_loop:
            yield ("CNT",)
        yield ("RET",)
        return
    if depth == 0:
        return
    inner = size - 1
    for body in enum_lists(inner, in_loop, in_switch, depth - 1):
        yield ("IF", body)
        yield ("BLK", body)
    for body in enum_lists(inner, True, False, depth - 1):
        yield ("FOR", body)
        yield ("INF", body)
    for body in enum_lists(inner, in_loop, True, depth - 1):
        yield ("SW", body, None)
    # two-armed forms
    for k in range(1, inner):
        for x in enum_lists(k, in_loop, in_switch, depth - 1):
            for y in enum_lists(inner - k, in_loop, in_switch, depth - 1):
                yield ("IFE", x, y)
        for x in enum_lists(k, in_loop, True, depth - 1):
            for y in enum_lists(inner - k, in_loop, True, depth - 1):
                yield ("SW", x, y)


def concretize(abs_list, ctr, loopvars):
    out = []
    for s in abs_list:
        k = s[0]
        if k == "E":
            out.append(("eff", ctr.eff()))
        elif k == "Y":
            out.append(("yield", ctr.yield_expr(loopvars)))
        elif k == "BRK":
            out.append(("break",))
        elif k == "CNT":
            out.append(("continue",))
        elif k == "RET":
            out.append(("return",))
        elif k == "IF":
            out.append(("if", ctr.guard(), concretize(s[1], ctr, loopvars), None))
        elif k == "IFE":
            out.append(("if", ctr.guard(), concretize(s[1], ctr, loopvars), concretize(s[2], ctr, loopvars)))
        elif k == "BLK":
            out.append(("block", concretize(s[1], ctr, loopvars)))
        elif k == "FOR":
            v = ctr.var()
            out.append(("for", ("decl", v, "0"), "%s < n" % v, ("inc", v), concretize(s[1], ctr, loopvars + [v])))
        elif k == "INF":
            v = ctr.var()
            body = [("inc", v), ("if", "%s > n" % v, [("break",)], None)] + concretize(s[1], ctr, loopvars + [v])
            out.append(("decl", v, "0"))
            out.append(("for", None, None, None, body))
        elif k == "SW":
            tag = ["a&3", "b&1", "n"][ctr.g % 3]
            ctr.g += 1
            cases = [("0", concretize(s[1], ctr, loopvars))]
            default = concretize(s[2], ctr, loopvars) if s[2] is not None else None
            out.append(("switch", None, tag, cases, default))
    return out


def abs_has_yield(lst):
    for s in lst:
        if s[0] == "Y":
            return True
        for part in s[1:]:
            if isinstance(part, list) and abs_has_yield(part):
                return True
    return False


def exhaustive(max_size, depth=3):
    progs = []
    for size in range(1, max_size + 1):
        for lst in enum_lists(size, False, False, depth):
            if not abs_has_yield(lst):
                continue
            progs.append(lst)
    return progs


# ---------------------------------------------------------------------------------------------
# random sampling of larger bodies


class Sampler:
    def __init__(self, rng, weights=None, max_depth=4):
        self.rng = rng
        self.max_depth = max_depth
        self.w = weights or {"E": 3, "Y": 5, "IF": 3, "IFE": 2, "ELIF": 1, "FOR": 3, "INF": 1, "WHILE": 1, "SW": 2, "SWD": 2,
                             "BLK": 1, "BRK": 2, "CNT": 2, "RET": 1, "DECL": 2, "ASSIGN": 2, "NAT": 2}

    def body(self, budget, ctr, loopvars, in_loop, in_switch, depth, scope):
        out = []
        while budget[0] > 0:
            s = self.stmt(budget, ctr, loopvars, in_loop, in_switch, depth, scope)
            if s is None:
                break
            out.extend(s)
            if s[-1][0] in ("break", "continue", "return"):
                break
            if self.rng.random() < 0.25:
                break
        return out

    def stmt(self, budget, ctr, loopvars, in_loop, in_switch, depth, scope):
        rng = self.rng
        kinds = []
        for k, w in self.w.items():
            if k in ("BRK",) and not (in_loop or in_switch):
                continue
            if k == "CNT" and not in_loop:
                continue
            if k in ("IF", "IFE", "ELIF", "FOR", "INF", "WHILE", "SW", "SWD", "BLK", "NAT") and (depth >= self.max_depth or budget[0] < 2):
                continue
            if k == "ASSIGN" and not scope:
                continue
            kinds += [k] * w
        if not kinds:
            return None
        k = rng.choice(kinds)
        budget[0] -= 1
        sub = lambda il, isw, lv=loopvars, sc=None: self.body(budget, ctr, lv, il, isw, depth + 1, list(scope) if sc is None else sc) or [("eff", ctr.eff())]
        if k == "E":
            if scope and rng.random() < 0.5:
                return [("effv", 1, rng.choice(scope))]
            return [("eff", ctr.eff())]
        if k == "Y":
            if scope and rng.random() < 0.4:
                ctr.y += 1
                return [("yield", "%s + %d" % (rng.choice(scope), ctr.y * 10))]
            return [("yield", ctr.yield_expr(loopvars))]
        if k == "BRK":
            return [("break",)]
        if k == "CNT":
            return [("continue",)]
        if k == "RET":
            return [("return",)]
        if k == "DECL":
            v = "x%d" % (len(scope) + 1)
            e = rng.choice(["a", "b", "a + 1", "b + 2"] + scope)
            scope.append(v)
            return [("decl", v, e), ("assign", "_", v)]
        if k == "ASSIGN":
            v = rng.choice(scope)
            return [("assign", v, "%s + %d" % (rng.choice(scope + ["a", "b"]), rng.randint(1, 9)))]
        if k == "IF":
            return [("if", ctr.guard(), sub(in_loop, in_switch), None)]
        if k == "IFE":
            return [("if", ctr.guard(), sub(in_loop, in_switch), sub(in_loop, in_switch))]
        if k == "ELIF":
            return [("if", ctr.guard(), sub(in_loop, in_switch), [("if", ctr.guard(), sub(in_loop, in_switch), sub(in_loop, in_switch) if rng.random() < 0.5 else None)])]
        if k == "BLK":
            return [("block", sub(in_loop, in_switch))]
        if k == "FOR":
            v = ctr.var()
            r = rng.random()
            if r < 0.25:
                # assignment-style init on a variable that already holds another value
                return [("decl", v, "7"), ("for", ("assign", v, "0"), "%s < n" % v, ("inc", v), sub(True, False, loopvars + [v])), ("effv", 3, v)]
            if r < 0.35:
                # call init (neither define nor yield)
                return [("decl", v, "0"), ("for", ("eff", ctr.eff()), "%s < n" % v, ("inc", v), sub(True, False, loopvars + [v]))]
            if r < 0.45:
                # countdown with assignment init
                return [("decl", v, "0"), ("for", ("assign", v, "n"), "%s > 0" % v, ("raw", "%s--" % v), sub(True, False, loopvars + [v]))]
            return [("for", ("decl", v, "0"), "%s < n" % v, ("inc", v), sub(True, False, loopvars + [v]))]
        if k == "WHILE":
            v = ctr.var()
            return [("decl", v, "0"), ("for", None, "%s < n" % v, None, [("inc", v)] + sub(True, False, loopvars + [v]))]
        if k == "INF":
            v = ctr.var()
            return [("decl", v, "0"), ("for", None, None, None, [("inc", v), ("if", "%s > n" % v, [("break",)], None)] + sub(True, False, loopvars + [v]))]
        if k == "NAT":
            # a yield-free loop (stays a native Go loop) whose body has a switch with continue / break
            v = ctr.var()
            acc = "t%s" % v
            cases = []
            for ci in range(rng.randint(1, 2)):
                cb = [rng.choice([("continue",), ("break",), ("assign", acc, "%s + %d" % (acc, ci + 1)), ("eff", ctr.eff())])]
                if cb[0][0] == "assign" and rng.random() < 0.5:
                    cb.append(("if", ctr.guard(), [rng.choice([("continue",), ("break",)])], None))
                cases.append((str(ci), cb))
            default = [rng.choice([("continue",), ("assign", acc, acc + " + 7"), ("eff", ctr.eff())])] if rng.random() < 0.6 else None
            body = [("switch", None, "%s&%d" % (v, rng.choice([1, 3])), cases, default), ("assign", acc, "%s + %s + a" % (acc, v))]
            if rng.random() < 0.4:
                body.append(("if", ctr.guard(), [("continue",)], None))
                body.append(("effv", 2, acc))
            out = [("decl", acc, "0"), ("for", ("decl", v, "0"), "%s < n" % v, ("inc", v), body), ("yield", "%s + %d" % (acc, ctr.y * 10 + 5))]
            ctr.y += 1
            return out
        if k in ("SW", "SWD"):
            tag = rng.choice(["a&3", "b&1", "n", "a&1"])
            ncases = rng.randint(1, 2)
            cases = [(str(i), sub(in_loop, True)) for i in range(ncases)]
            default = sub(in_loop, True) if k == "SWD" else None
            return [("switch", None, tag, cases, default)]
        return None


YIELD_FORMS = ["{v}", "-{v}", "+{v}", "^{v}", "({v})", "{v} + 1", "{v} << 1", "int(int32({v}))", "[]int{{{v}, 1}}[0]",
               "func() int {{ return {v} }}()", "*(&{v})", "rt.Eff(955, {v})", "-rt.Eff(956, {v})", "len([]int{{{v}}}) + {v}"]


class RichSampler(Sampler):
    """the base grammar plus: var declarations, mixed ':=', multiple assignment, switches with
    define / assign initialisers, type switches (with init), fallthrough from yield-free clauses,
    immediately invoked function literals with native control flow, closures defined and called
    later, range statements over literals in every variable form, delegation, and yielded
    expressions in many syntactic forms"""

    EXTRA = {"VAR": 2, "MDEF": 2, "MASSIGN": 1, "SWI": 2, "TSW": 2, "FT": 1, "IIFE": 1, "CLO": 2, "RNG": 3, "YF": 2, "YX": 4, "IFI": 3, "ELSEBLK": 2, "GCH": 2,
             "MCASE": 2, "TSWM": 2, "LDECL": 2, "COMMAOK": 2, "OPASSIGN": 2, "CHAN": 1, "EMPTY": 1, "FOR2": 2, "TAGLESS": 2, "FORNC": 2, "YPOST": 2, "YINST": 2}

    def __init__(self, rng, weights=None, max_depth=4):
        super().__init__(rng, weights, max_depth)
        self.n = 0
        self.entry = []  # len(scope) at entry of the enclosing bodies: scope[entry[-1]:] are this block's own variables

    def body(self, budget, ctr, loopvars, in_loop, in_switch, depth, scope):
        self.entry.append(len(scope))
        try:
            return super().body(budget, ctr, loopvars, in_loop, in_switch, depth, scope)
        finally:
            self.entry.pop()

    def fresh(self, p):
        self.n += 1
        return "%s%d" % (p, self.n)

    def stmt(self, budget, ctr, loopvars, in_loop, in_switch, depth, scope):
        rng = self.rng
        total = sum(self.w.values()) + sum(self.EXTRA.values())
        r = rng.random() * total
        if r >= sum(self.EXTRA.values()):
            return super().stmt(budget, ctr, loopvars, in_loop, in_switch, depth, scope)
        kinds = []
        for k, w in self.EXTRA.items():
            if k in ("SWI", "TSW", "FT", "RNG", "IFI", "ELSEBLK", "GCH", "MCASE", "TSWM", "FOR2", "TAGLESS", "FORNC", "YPOST") and (depth >= self.max_depth or budget[0] < 2):
                continue
            if k in ("MASSIGN", "OPASSIGN") and not scope:
                continue
            if k == "MDEF" and not scope[self.entry[-1]:]:
                continue  # a mixed ':=' re-assigns only variables declared in the same block
            kinds += [k] * w
        if not kinds:
            return super().stmt(budget, ctr, loopvars, in_loop, in_switch, depth, scope)
        k = rng.choice(kinds)
        budget[0] -= 1
        vals = scope + ["a", "b"] + loopvars
        sub = lambda il, isw, lv=loopvars, sc=None: self.body(budget, ctr, lv, il, isw, depth + 1, list(scope) if sc is None else sc) or [("eff", ctr.eff())]
        if k == "VAR":
            v = self.fresh("v")
            scope.append(v)
            form = rng.choice(["var %s int = %s", "var %s = %s", "var %s int\n%s = %s"])
            e = "%s + %d" % (rng.choice(vals), rng.randint(1, 9))
            txt = form % ((v, e) if form.count("%s") == 2 else (v, v, e))
            return [("raw", txt), ("assign", "_", v)]
        if k == "MDEF":
            old = rng.choice(scope[self.entry[-1]:])
            v = self.fresh("m")
            scope.append(v)
            return [("raw", "%s, %s := %s + %d, %s + %d" % (old, v, rng.choice(vals), rng.randint(1, 9), rng.choice(vals), rng.randint(1, 9))), ("assign", "_", v)]
        if k == "MASSIGN":
            x = rng.choice(scope)
            y = rng.choice(scope)
            if x == y:
                return [("raw", "%s, _ = %s + 1, %s" % (x, x, rng.choice(vals)))]
            return [("raw", "%s, %s = %s, %s + %s" % (x, y, y, x, rng.choice(vals)))]
        if k == "IFI":
            # if / else-if with an init statement: define, assignment, call
            form = rng.choice(["define", "assign", "call", "elseif_assign", "elseif_define"])
            e = "%s + %d" % (rng.choice(vals), rng.randint(1, 9))
            if form == "define" or not scope:
                v = self.fresh("iv")
                body = sub(in_loop, in_switch, sc=list(scope) + [v])
                els = sub(in_loop, in_switch, sc=list(scope) + [v]) if rng.random() < 0.5 else None
                txt = ["if %s := %s; %s&1 == 0 {" % (v, e, v)] + p_stmts([("effv", 8, v)] + body, 1)
                kids = [[("effv", 8, v)] + body]
                if els is not None:
                    txt += ["} else {"] + p_stmts(els, 1)
                    kids.append(els)
                return [("rawif", "\n".join(txt + ["}"]), kids)]
            tgt = rng.choice(scope)
            body = sub(in_loop, in_switch)
            if form == "assign":
                txt = ["if %s = %s; %s&1 == 0 {" % (tgt, e, tgt)] + p_stmts(body, 1) + ["}"]
                return [("rawif", "\n".join(txt), [body]), ("effv", 8, tgt)]
            if form == "call":
                txt = ["if rt.Emit(rt.EFF, %d); %s > %s {" % (ctr.eff(), tgt, rng.choice(vals))] + p_stmts(body, 1) + ["}"]
                return [("rawif", "\n".join(txt), [body])]
            b2 = sub(in_loop, in_switch)
            if form == "elseif_assign":
                txt = ["if %s {" % ctr.guard()] + p_stmts(body, 1) + ["} else if %s = %s; %s&1 == 0 {" % (tgt, e, tgt)] + p_stmts(b2, 1) + ["}"]
                return [("rawif", "\n".join(txt), [body, b2]), ("effv", 8, tgt)]
            v = self.fresh("iv")
            txt = ["if %s {" % ctr.guard()] + p_stmts(body, 1) + ["} else if %s := %s; %s > %s {" % (v, e, v, rng.choice(vals))] + p_stmts([("effv", 8, v)] + b2, 1) + ["}"]
            return [("rawif", "\n".join(txt), [body, [("effv", 8, v)] + b2])]
        if k == "YINST":
            # the API functions called with explicit type arguments
            if rng.random() < 0.7:
                ctr.y += 1
                return [("yield", "%s + %d" % (rng.choice(vals), ctr.y * 10), "inst")]
            return [("yieldfrom", "H2(%s)" % rng.choice(vals), "inst")]
        if k == "YPOST":
            # loop whose post statement yields (or delegates); the body may continue / break
            i = self.fresh("yp")
            body = sub(True, False, loopvars + [i], sc=list(scope))
            post = ("yield", "%s + %d" % (i, 100 + rng.randint(1, 9))) if rng.random() < 0.7 else ("yieldfrom", "H2(%s)" % i)
            return [("decl", i, "0"), ("for", None, "%s < n" % i, post, [("inc", i)] + body)]
        if k == "TAGLESS":
            # tag-less switch (optionally with an initialiser): the clauses are conditions
            cases = [(ctr.guard(), sub(in_loop, True)) for _ in range(rng.randint(1, 2))]
            cases.append(("%s > %s" % (rng.choice(vals), rng.choice(vals)), sub(in_loop, True)))
            default = sub(in_loop, True) if rng.random() < 0.5 else None
            if rng.random() < 0.3:
                v = self.fresh("tz")
                cases[-1] = ("%s > %s" % (v, rng.choice(vals)), cases[-1][1])
                return [("switch", ("decl", v, "%s + %d" % (rng.choice(vals), rng.randint(1, 9))), None, cases, default)]
            return [("switch", None, None, cases, default)]
        if k == "FORNC":
            # three-clause loop without a condition: left by break / return only
            i = self.fresh("nc")
            body = sub(True, False, loopvars + [i], sc=list(scope))
            return [("for", ("decl", i, "0"), None, ("inc", i), [("if", "%s >= n" % i, [("break",)], None)] + body)]
        if k == "MCASE":
            # case lists with several values, the default clause in the middle
            tag = "(%s + %d) & 3" % (rng.choice(vals), rng.randint(0, 5))
            b0, bd, b1 = strip_jumps(sub(in_loop, True)), strip_jumps(sub(in_loop, True)), strip_jumps(sub(in_loop, True))
            # an empty clause absorbs its values: nothing happens, the default is not taken
            lines = ["switch %s {" % tag, "case 0, 2:"] + p_stmts(b0, 1) + ["case 3:", "default:"] + p_stmts(bd, 1) + ["case 1:"] + p_stmts(b1, 1) + ["}"]
            return [("rawstmts", "\n".join(lines), [b0, bd, b1])]
        if k == "TSWM":
            # type switch without a binding / with a binding in a multi-type clause, a nil clause
            tv = self.fresh("tv")
            g, g2 = ctr.guard(), ctr.guard()
            pre = ("raw", "var %s any = %s\nif %s {\n\t%s = \"s\"\n} else if %s {\n\t%s = nil\n}" % (tv, rng.choice(vals), g, tv, g2, tv))
            b1, b2 = strip_jumps(sub(in_loop, True)), strip_jumps(sub(in_loop, True))
            b3 = strip_jumps(sub(in_loop, True)) if rng.random() < 0.5 else None
            if rng.random() < 0.5:
                head = "switch %s.(type) {" % tv
                use = []
            else:
                tb = self.fresh("tb")
                head = "switch %s := %s.(type) {" % (tb, tv)
                use = [("raw", "_ = %s" % tb)]
            lines = [head, "case int, string:"] + p_stmts(use + b1, 1) + ["case nil:"] + p_stmts(use + b2, 1)
            kids = [b1, b2]
            if b3 is not None:
                lines += ["default:"] + p_stmts(use + b3, 1)
                kids.append(b3)
            lines += ["}"]
            return [pre, ("rawstmts", "\n".join(lines), kids)]
        if k == "LDECL":
            # declarations other than ':=' in the body: constants, types, grouped variables
            c, t, v, w = self.fresh("cK"), self.fresh("lT"), self.fresh("lv"), self.fresh("lw")
            scope.append(w)
            e = rng.choice(vals)
            return [("raw", "const %s = %d" % (c, rng.randint(2, 9))), ("raw", "type %s struct{ f, g int }" % t),
                    ("raw", "var (\n\t%s = %s{f: %s + %s}\n\t%s int\n)" % (v, t, e, c, w)),
                    ("yield", "%s.f + %s.g + %d" % (v, v, rng.randint(1, 9))), ("raw", "%s.g += %s\n%s = %s.f + %s.g" % (v, c, w, v, v)), ("yield", "%s + %d" % (w, rng.randint(10, 19)))]
        if k == "COMMAOK":
            form = rng.choice(["map", "assert", "recv"])
            v, ok = self.fresh("cv"), self.fresh("ok")
            e = rng.choice(vals)
            if form == "map":
                m = self.fresh("cm")
                return [("raw", "%s := map[int]int{1: %s}\n%s, %s := %s[%s&1]" % (m, e, v, ok, m, rng.choice(vals))), ("yield", "%s + %d" % (v, rng.randint(1, 9))),
                        ("raw", "%s, %s = %s[1]" % (v, ok, m)), ("if", ok, [("yield", "%s + %d" % (v, rng.randint(10, 19)))], [("eff", ctr.eff())])]
            if form == "assert":
                t = self.fresh("ct")
                return [("raw", "var %s any = %s\nif %s {\n\t%s = true\n}\n%s, %s := %s.(int)" % (t, e, ctr.guard(), t, v, ok, t)), ("yield", "%s + %d" % (v, rng.randint(1, 9))),
                        ("if", ok, [("yield", "%s + %d" % (v, rng.randint(10, 19)))], None), ("raw", "_, %s = %s.(bool)" % (ok, t)), ("if", ok, [("eff", ctr.eff())], None)]
            ch = self.fresh("cc")
            return [("raw", "%s := make(chan int, 1)\n%s <- %s\nclose(%s)\n%s, %s := <-%s" % (ch, ch, e, ch, v, ok, ch)), ("yield", "%s + %d" % (v, rng.randint(1, 9))),
                    ("raw", "%s, %s = <-%s" % (v, ok, ch)), ("if", "!" + ok, [("yield", "%s + %d" % (v, rng.randint(10, 19)))], None)]
        if k == "OPASSIGN":
            x = rng.choice(scope)
            op = rng.choice(["+=", "-=", "<<=", "&^=", "|=", "^=", "%="])
            rhs = {"<<=": "1", "%=": "7"}.get(op, "%s + %d" % (rng.choice(vals), rng.randint(1, 9)))
            return [("raw", "%s %s %s" % (x, op, rhs)), ("yield", "%s + %d" % (x, rng.randint(1, 9))), ("raw", "%s %s %s" % (x, rng.choice(["+=", "^="]), rng.choice(vals)))]
        if k == "CHAN":
            ch = self.fresh("sc")
            return [("raw", "%s := make(chan int, 2)\n%s <- %s" % (ch, ch, rng.choice(vals))), ("yield", "len(%s) + %d" % (ch, rng.randint(1, 9))),
                    ("raw", "%s <- %s" % (ch, rng.choice(vals))), ("yield", "<-%s + <-%s" % (ch, ch))]
        if k == "EMPTY":
            return [("raw", ";"), ("eff", ctr.eff())]
        if k == "FOR2":
            i, j = self.fresh("fi"), self.fresh("fj")
            body = sub(True, False, loopvars + [i], sc=list(scope))
            return [("for", ("raw", "%s, %s := 0, n+1" % (i, j)), "%s < %s" % (i, j), ("raw", "%s, %s = %s+1, %s-1" % (i, j, i, j)), [("effv", 9, j)] + body)]
        if k == "GCH":
            # guard chain: the first arm ends in a jump (or return), further else-if arms complete
            # normally, no final else; the statements after the chain must still run
            jump = ("continue",) if in_loop and rng.random() < 0.5 else ("break",) if (in_loop and not in_switch) else ("return",)
            first = [("eff", ctr.eff())] if rng.random() < 0.5 else [("yield", "%s + %d" % (rng.choice(vals), rng.randint(1, 9)))]
            chain = None
            for _ in range(rng.randint(1, 2)):
                chain = [("if", ctr.guard(), sub(in_loop, in_switch), chain)]
            return [("if", ctr.guard(), first + [jump], chain), ("eff", ctr.eff())]
        if k == "ELSEBLK":
            # an else block that starts with a yield-free if and goes on with more statements
            first = ("if", ctr.guard(), [("eff", ctr.eff())], None)
            rest = sub(in_loop, in_switch)
            return [("if", ctr.guard(), sub(in_loop, in_switch), [first] + rest + [("eff", ctr.eff())])]
        if k == "SWI":
            v = self.fresh("z")
            e = "(%s + %d) & 3" % (rng.choice(vals), rng.randint(0, 5))
            if scope and rng.random() < 0.4:
                tgt = rng.choice(scope)
                init, tag = ("assign", tgt, e), tgt
                inner = list(scope)
            else:
                init, tag = ("decl", v, e), v
                inner = list(scope) + [v]
            cases = [(str(i), sub(in_loop, True, sc=list(inner))) for i in range(rng.randint(1, 2))]
            default = sub(in_loop, True, sc=list(inner)) if rng.random() < 0.5 else None
            return [("switch", init, tag, cases, default)]
        if k == "TSW":
            tv = self.fresh("tv")
            bind = self.fresh("tb")
            g = ctr.guard()
            pre = ("raw", "var %s any = %s\nif %s {\n\t%s = \"s\"\n}" % (tv, rng.choice(vals), g, tv))
            b1 = strip_jumps(sub(in_loop, True, sc=list(scope) + [bind]))
            b2 = strip_jumps(sub(in_loop, True)) if rng.random() < 0.5 else None
            head_init = ""
            if rng.random() < 0.4:
                iv = self.fresh("ti")
                head_init = "%s := %s + 1; " % (iv, rng.choice(vals))
                b1 = [("effv", 4, iv)] + b1
            # printed raw because of the optional init; the clause bodies are statement lists
            lines = ["switch %s%s := %s.(type) {" % (head_init, bind, tv), "case int:"]
            lines += p_stmts([("effv", 4, bind)] + b1, 1)
            lines += ["case string:"] + p_stmts([("effv", 4, "len(%s)" % bind)], 1)
            if b2 is not None:
                lines += ["default:"] + p_stmts(b2, 1)
            lines += ["}"]
            return [pre, ("rawstmts", "\n".join(lines), [[("effv", 4, bind)] + b1] + ([b2] if b2 is not None else []))]
        if k == "FT":
            # a yield-free clause that falls through into the next clause
            tag = "%s & 1" % rng.choice(vals)
            b = strip_jumps(sub(in_loop, True))
            lines = ["switch %s {" % tag, "case 0:", "\trt.Emit(rt.EFF, %d)" % ctr.eff(), "\tfallthrough", "case 1:"] + p_stmts(b, 1) + ["}"]
            return [("rawstmts", "\n".join(lines), [b])]
        if k == "IIFE":
            acc = self.fresh("q")
            scope.append(acc)
            return [("effv", 7, acc)][:0] + [("raw", "%s := func() int {\n\tt := 0\n\tdefer func() { t++ }()\n\tfor i := 0; i < 3; i++ {\n\t\tswitch i & 1 {\n\t\tcase 0:\n\t\t\tcontinue\n\t\t}\n\t\tif i > %s {\n\t\t\tbreak\n\t\t}\n\t\tt += i + %s\n\t}\n\treturn t\n}()" % (acc, rng.choice(vals), rng.choice(vals))), ("effv", 7, acc)]
        if k == "CLO":
            f = self.fresh("cf")
            if scope and rng.random() < 0.5:
                tgt = rng.choice(scope)
                return [("raw", "%s := func(d int) { %s += d }" % (f, tgt)), ("yield", "%s + %d" % (tgt, rng.randint(1, 9))), ("raw", "%s(%s)" % (f, rng.choice(vals))), ("yield", "%s + %d" % (tgt, rng.randint(10, 19)))]
            return [("raw", "%s := func() int { return %s + %d }" % (f, rng.choice(vals), rng.randint(1, 9))), ("yield", "%s()" % f)]
        if k == "RNG":
            kv = self.fresh("rk")
            vv = self.fresh("rv")
            coll = rng.choice(["[]int{%s, %s}" % (rng.choice(vals), rng.choice(vals)), "[]int{%s, 7, 9}[1:]" % rng.choice(vals), "\"ab\"", "map[int]int{1: %s}" % rng.choice(vals)])
            form = rng.choice([(kv, vv, ":="), (kv, None, ":="), ("_", vv, ":="), (None, None, ":=")])
            names = [x for x in form[:2] if x and x != "_"]
            inner = list(scope) + ([kv] if kv in names else []) + ([vv] if (vv in names and "ab" not in coll) else [])
            uses = [("effv", 6, "int(%s)" % x) for x in names]
            return [("range", form[0], form[1], form[2], coll, uses + sub(True, False, loopvars, sc=inner))]
        if k == "YF":
            return [("yieldfrom", "H2(%s)" % rng.choice(vals))]
        if k == "YX":
            ctr.y += 1
            return [("yield", rng.choice(YIELD_FORMS).format(v=rng.choice(vals)) + (" + %d" % (ctr.y * 10)))]
        return None


def sampled(rng, count, max_nodes=12, weights=None, rich=True):
    progs = []
    s = RichSampler(rng, weights) if rich else Sampler(rng, weights)
    tries = 0
    while len(progs) < count and tries < count * 20:
        tries += 1
        ctr = Ctr()
        budget = [rng.randint(4, max_nodes)]
        body = s.body(budget, ctr, [], False, False, 0, [])
        if not contains_yield(body):
            continue
        progs.append(body)
    return progs


# ---------------------------------------------------------------------------------------------
# C02: make evaluation points observable


def effectify(body, rng, ctr, p=0.6):
    """wrap yielded expressions, conditions, tags and post statements in rt.Eff(id, e) and put
    effects around yields, so that *when* each expression is evaluated becomes visible"""

    def eid():
        ctr.e += 1
        return 500 + ctr.e

    def wrap(e):
        if e is None or rng.random() > p:
            return e
        return "rt.Eff(%d, %s)" % (eid(), e)

    def simple(s):
        if s is None:
            return None
        if s[0] in ("yield",):
            return ("yield", wrap(s[1]))
        if s[0] in ("decl", "assign"):
            return (s[0], s[1], wrap(s[2]))
        return s

    def rec(lst):
        out = []
        for s in lst:
            k = s[0]
            if k == "yield":
                if rng.random() < p:
                    out.append(("eff", eid()))
                out.append(("yield", wrap(s[1])))
                if rng.random() < p:
                    out.append(("eff", eid()))
            elif k in ("decl", "assign"):
                out.append(simple(s))
            elif k == "if":
                out.append(("if", wrap(s[1]), rec(s[2]), rec(s[3]) if s[3] is not None else None))
            elif k == "block":
                out.append(("block", rec(s[1])))
            elif k == "switch":
                out.append(("switch", simple(s[1]), wrap(s[2]), [(v, rec(b)) for v, b in s[3]], rec(s[4]) if s[4] is not None else None))
            elif k == "for":
                out.append(("for", simple(s[1]), wrap(s[2]), simple(s[3]), rec(s[4])))
            else:
                out.append(s)
        return out

    return rec(body)


# ---------------------------------------------------------------------------------------------
# C18: panic sites


def panic_driver(name, K, nlo=-1, nhi=3):
    return """func Drive_%(name)s() {
	a, b, n := rt.NondetInt(1), rt.NondetInt(2), rt.NondetInt(3)
	g1, g2, g3 := rt.NondetBool(4), rt.NondetBool(5), rt.NondetBool(6)
	rt.Assume(n >= %(nlo)d && n <= %(nhi)d)
	// a panic outside an advance (when the generator function is called) is logged as such
	escaped := true
	defer func() {
		if escaped {
			rt.EmitPanic(rt.PANIC, recover())
			rt.Emit(rt.END, 1)
		}
	}()
	it := %(name)s(a, b, n, g1, g2, g3)
	rt.Emit(rt.CREATED, 0)
	rt.Emit(rt.RESULT, it.Current()) // reading before the first advance runs nothing (and cannot panic)
	for k := 0; k < %(K)d; k++ {
		stop := false
		func() {
			returned := false
			defer func() {
				// a panic whose value is nil (panic(nil) before go 1.21, a nil error) is a panic too
				if r := recover(); r != nil || !returned {
					rt.EmitPanic(rt.PANIC, r)
					stop = true
				}
			}()
			rt.Emit(rt.ADV_BEGIN, k)
			ok := it.MoveNext()
			returned = true
			if !ok {
				rt.Emit(rt.ADV_END, 0)
				stop = true
				return
			}
			rt.Emit(rt.ADV_END, 1)
			rt.Emit(rt.YIELD, it.Current())
		}()
		if stop {
			break
		}
	}
	rt.Emit(rt.END, 0)
	escaped = false
}""" % {"name": name, "K": K, "nlo": nlo, "nhi": nhi}


PANIC_SITES = [
    lambda c: ("raw", "panic(a + %d)" % c),
    lambda c: ("raw", "rt.Emit(41, b/(a-%d))" % (c % 7)),
    lambda c: ("raw", "rt.Emit(42, []int{1, 2, 3}[a&3])"),
    lambda c: ("raw", "var pm map[int]int\npm[1] = a"),
    lambda c: ("raw", "var pp *int\nrt.Emit(43, *pp)"),
    lambda c: ("raw", "panic(\"boom\")"),
    lambda c: ("raw", "switch []int{1, 2}[a&3] {\ndefault:\n\tYield(b + 983)\n}"),
    lambda c: ("raw", "var pq *int\nswitch *pq + a {\ndefault:\n\tYield(b + 984)\n\trt.Emit(rt.EFF, 987)\n}"),
    lambda c: ("raw", "panic(nil)"),
    lambda c: ("raw", "var pe error\npanic(pe)"),
    lambda c: ("yieldfrom", "PN(a)"),
    lambda c: ("yieldfrom", "H3(a)"),
    lambda c: ("raw", "for pi := range PT(a) {\n\tYield(pi + 980)\n}"),
    lambda c: ("raw", "for range PT(b) {\n\trt.Emit(rt.EFF, 981)\n}"),
    lambda c: ("raw", "for _, pv := range PS(a) {\n\tYield(pv + 982)\n}"),
    lambda c: ("raw", "var tab = []int{1, 2}\nreturn_ := tab[a&3]\n_ = return_"),
    # a panic inside a closure: the statement that contains the closure is not a panicking statement
    lambda c: ("raw", "func() {\n\tif a&7 == %d {\n\t\tpanic(a + %d)\n\t}\n\trt.Emit(rt.EFF, 988)\n}()" % (c % 5, c)),
    lambda c: ("raw", "rt.Emit(44, func() int {\n\tif b&3 == %d {\n\t\tpanic(\"in closure\")\n\t}\n\treturn b\n}())" % (c % 3)),
    lambda c: ("raw", "Yield(func() int {\n\tif a&3 == %d {\n\t\tpanic(a)\n\t}\n\treturn a + 989\n}())" % (c % 3)),
    lambda c: ("raw", "try := func(f func()) {\n\tf()\n}\ntry(func() {\n\tif g3 {\n\t\tpanic(b + %d)\n\t}\n})" % c),
]

PANIC_HELPERS = """func PT(x int) *[3]int {
	rt.Emit(rt.EFF, 985)
	if x&1 == 0 {
		panic(x + 7)
	}
	return &[3]int{1, 2, 3}
}

func PS(x int) []int {
	rt.Emit(rt.EFF, 986)
	if x&1 == 0 {
		panic("ps")
	}
	return []int{4, 5}
}

func PN(x int) (_ Iter[int]) {
	Yield(x + 5000)
	if x%2 == 0 {
		panic(nil)
	}
	Yield(x + 6000)
	return
}

func H3(x int) (_ Iter[int]) {
	Yield(x + 3000)
	if x%2 == 0 {
		panic(x + 1)
	}
	Yield(x + 4000)
	return
}
"""


def inject_panic(body, rng, ctr):
    """insert one panic site at a random statement position (guarded with probability 1/2)"""
    positions = []

    def collect(lst):
        for i in range(len(lst) + 1):
            positions.append((lst, i))
        for s in lst:
            k = s[0]
            if k == "block":
                collect(s[1])
            elif k == "if":
                collect(s[2])
                if s[3] is not None:
                    collect(s[3])
            elif k in ("switch", "tswitch"):
                for _, b in s[3]:
                    collect(b)
                if s[4] is not None:
                    collect(s[4])
            elif k == "for":
                collect(s[4])

    collect(body)
    # do not insert after a terminating jump (unreachable code is legal but pointless)
    positions = [(l, i) for (l, i) in positions if i == 0 or l[i - 1][0] not in ("break", "continue", "return")]
    lst, i = rng.choice(positions)
    ctr.y += 1
    site = rng.choice(PANIC_SITES)(ctr.y)
    if rng.random() < 0.5:
        site = ("if", rng.choice(["g3", "a > b", "b&1 == 0"]), [site], None)
    lst.insert(i, site)
    return body


# ---------------------------------------------------------------------------------------------
# C05: delegation

C05_HELPERS = """func H1(x int) (_ Iter[int]) {
	for i := 0; i < 3; i++ {
		rt.Emit(rt.EFF, 700+i)
		Yield(x + 1000*(i+1))
	}
	rt.Emit(rt.EFF, 709)
	return
}

func H2(x int) (_ Iter[int]) {
	rt.Emit(rt.EFF, 710)
	Yield(x + 1)
	rt.Emit(rt.EFF, 711)
	Yield(x + 2)
	return
}

func H3(x int) (_ Iter[int]) {
	rt.Emit(rt.EFF, 720)
	if x != x {
		Yield(0)
	}
	return
}

func H4(x int) (_ Iter[int]) {
	Yield(x + 5)
	YieldFrom(H2(x + 10))
	rt.Emit(rt.EFF, 730)
	YieldFrom(H3(x))
	Yield(x + 6)
	return
}

func R1(d, x int) (_ Iter[int]) {
	rt.Emit(rt.EFF, 740)
	if d <= 0 {
		return
	}
	Yield(x + d)
	YieldFrom(R1(d-1, x+100))
	Yield(x - d)
	return
}

func R2(x int) Iter[int] {
	for {
		Yield(x)
		x++
	}
}

func MK(x int) Iter[int] {
	rt.Emit(rt.EFF, 750)
	return H2(x)
}
"""

DELEGATES = ["H1(a)", "H2(b)", "H3(a)", "H4(a)", "R1(n, a)", "R2(a)", "H2(a + 7)", "rt.Eff(801, H2(a))", "rt.Eff(802, H1(b))"]


class YFSampler(RichSampler):
    """the rich statement grammar with delegation statements as the most frequent leaf"""

    def __init__(self, rng, max_depth=4, rich=True):
        w = {"E": 3, "Y": 3, "YF": 6, "IF": 3, "IFE": 2, "FOR": 3, "INF": 1, "WHILE": 1, "SW": 1, "SWD": 2, "BLK": 1, "BRK": 1, "CNT": 1,
             "RET": 1, "DECL": 1, "ASSIGN": 1, "YFPOST": 1, "YFADV": 2}
        super().__init__(rng, w, max_depth)
        if not rich:
            self.EXTRA = {}

    def stmt(self, budget, ctr, loopvars, in_loop, in_switch, depth, scope):
        rng = self.rng
        # decide among the delegation forms with the weights above
        total = sum(self.w.values())
        r = rng.random() * total
        if r < self.w["YF"]:
            budget[0] -= 1
            return [("yieldfrom", rng.choice(DELEGATES))]
        r -= self.w["YF"]
        if r < self.w["YFADV"]:
            budget[0] -= 1
            ctr.v += 1
            v = "it%d" % ctr.v
            k = rng.randint(1, 2)
            adv = "\n".join("%s.MoveNext()" % v for _ in range(k))
            return [("raw", "%s := %s\n%s" % (v, rng.choice(DELEGATES[:5]), adv)), ("yieldfrom", v)]
        r -= self.w["YFADV"]
        if r < self.w["YFPOST"] and depth < self.max_depth and budget[0] >= 2:
            budget[0] -= 1
            ctr.v += 1
            v = "i%d" % ctr.v
            body = self.body(budget, ctr, loopvars + [v], True, False, depth + 1, list(scope)) or [("eff", ctr.eff())]
            return [("decl", v, "0"), ("for", ("yieldfrom", "H2(%s)" % v) if rng.random() < 0.4 else None, "%s < n" % v, ("yieldfrom", "H2(%s + 50)" % v), [("inc", v)] + body)]
        return super().stmt(budget, ctr, loopvars, in_loop, in_switch, depth, scope)


def strip_continue(body):
    out = []
    for s in body:
        k = s[0]
        if k == "continue":
            out.append(("eff", 999))
        elif k == "if":
            out.append(("if", s[1], strip_continue(s[2]), strip_continue(s[3]) if s[3] is not None else None))
        elif k == "block":
            out.append(("block", strip_continue(s[1])))
        elif k == "switch":
            out.append(("switch", s[1], s[2], [(v, strip_continue(b)) for v, b in s[3]], strip_continue(s[4]) if s[4] is not None else None))
        else:
            out.append(s)  # nested loops own their continues
    return out


def to_range_form(body, ctr):
    """replace every YieldFrom statement by 'for v := range x { Yield(v) }' (statement positions
    only; for-init/post keep YieldFrom)"""
    out = []
    for s in body:
        k = s[0]
        if k == "yieldfrom":
            ctr.v += 1
            v = "rv%d" % ctr.v
            out.append(("range", v, None, ":=", s[1], [("yield", v)]))
        elif k == "if":
            out.append(("if", s[1], to_range_form(s[2], ctr), to_range_form(s[3], ctr) if s[3] is not None else None))
        elif k == "block":
            out.append(("block", to_range_form(s[1], ctr)))
        elif k == "switch":
            out.append(("switch", s[1], s[2], [(v, to_range_form(b, ctr)) for v, b in s[3]], to_range_form(s[4], ctr) if s[4] is not None else None))
        elif k == "for":
            out.append(("for", s[1], s[2], s[3], to_range_form(s[4], ctr)))
        else:
            out.append(s)
    return out


def eq_driver(name, name2, K, nlo=-1, nhi=3):
    return """func DriveEq_%(name)s() {
	a, b, n := rt.NondetInt(1), rt.NondetInt(2), rt.NondetInt(3)
	g1, g2, g3 := rt.NondetBool(4), rt.NondetBool(5), rt.NondetBool(6)
	rt.Assume(n >= %(nlo)d && n <= %(nhi)d)
	for w := 0; w < 2; w++ {
		rt.SetLog(w)
		it := %(name)s(a, b, n, g1, g2, g3)
		if w == 1 {
			it = %(name2)s(a, b, n, g1, g2, g3)
		}
		rt.Emit(rt.CREATED, 0)
		for k := 0; k < %(K)d; k++ {
			rt.Emit(rt.ADV_BEGIN, k)
			if !it.MoveNext() {
				rt.Emit(rt.ADV_END, 0)
				break
			}
			rt.Emit(rt.ADV_END, 1)
			rt.Emit(rt.YIELD, it.Current())
		}
		rt.Emit(rt.END, 0)
	}
	rt.SetLog(0)
	rt.AssertSameLogs(0, 1, 500)
}""" % {"name": name, "name2": name2, "K": K, "nlo": nlo, "nhi": nhi}


# ---------------------------------------------------------------------------------------------
# C03: declarations, shadowing, closures


class ScopeSampler:
    NAMES = ["x", "y"]

    def __init__(self, rng, max_depth=4):
        self.rng = rng
        self.max_depth = max_depth
        self.c = 0
        self.nclos = 0
        self.nloop = 0

    def k(self):
        self.c += 1
        return self.c

    def writable(self, scopes):
        ro = set()
        out = []
        # innermost declaration of a name decides
        seen = set()
        for sc in reversed(scopes):
            for v in sc["vars"]:
                if v in seen:
                    continue
                seen.add(v)
                if v not in sc.get("ro", ()) and v in self.NAMES:
                    out.append(v)
        return out

    def escapable(self, scopes):
        """variables declared by a declaration statement (not by a loop / switch header) whose
        innermost declaration is inside a loop body"""
        out, seen = [], set()
        for sc in reversed(scopes):
            for v in sc["vars"]:
                if v in seen:
                    continue
                seen.add(v)
                if v in sc.get("own", ()) and sc.get("in_loop"):
                    out.append(v)
        return out

    def visible(self, scopes):
        vs = []
        for sc in scopes:
            for v in sc["vars"]:
                if v not in vs:
                    vs.append(v)
        return vs

    def expr(self, scopes):
        vs = self.visible(scopes) + ["a", "b"]
        e = self.rng.choice(vs)
        if self.rng.random() < 0.4:
            e = "%s + %s" % (e, self.rng.choice(vs))
        return "%s + %d" % (e, self.k())

    def closures(self, scopes):
        cs = []
        for sc in scopes:
            cs += sc["clos"]
        return cs

    def body(self, budget, scopes, in_loop, depth, pre=None):
        out = []
        scopes = scopes + [{"vars": list(pre or []), "clos": [], "ro": list(pre or []), "in_loop": in_loop}]
        while budget[0] > 0:
            ss = self.stmt(budget, scopes, in_loop, depth)
            out.extend(ss)
            if ss and ss[-1][0] in ("break", "continue", "return"):
                break
            if self.rng.random() < 0.15:
                break
        # every declared variable / closure of this scope must be used - before a trailing jump:
        # the rewriter drops dead code, and a use that only exists in dead code leaves the
        # generated file with an unused variable
        tail = []
        if out and out[-1][0] in ("break", "continue", "return"):
            tail = [out.pop()]
        for v in scopes[-1]["vars"]:
            out.append(("effv", 5, v))
        for cname, kind in scopes[-1]["clos"]:
            out.append(("raw", "_ = %s" % cname))
        return out + tail

    def stmt(self, budget, scopes, in_loop, depth):
        rng = self.rng
        budget[0] -= 1
        vis = self.visible(scopes)
        kinds = ["DECL"] * 4 + ["Y"] * 5
        wr = self.writable(scopes)
        if wr:
            kinds += ["UPD"] * 3
        if vis:
            kinds += ["CLOS"] * 3
        top = scopes[-1]
        own = [v for v in top["vars"] if v in self.NAMES and v not in top.get("ro", ())]
        if len(scopes) == 1:
            own = own + ["a", "b"]  # the body block of the function: parameters are re-assignable by ':='
        if own:
            kinds += ["MDEF"] * 2
        if self.closures(scopes):
            kinds += ["CALL"] * 4
        if depth < self.max_depth and budget[0] >= 2:
            kinds += ["IF"] * 2 + ["IFE", "BLK", "BLK", "FOR", "FORSH", "FORSHNC", "FORSH2", "SWINIT", "TSW", "RANGE", "WHILE"]
        if in_loop:
            kinds += ["BRK", "CNT"]
        if depth > 0:
            kinds += ["RET"]
        esc_c = self.escapable(scopes)
        if esc_c and in_loop:
            kinds += ["ESC"] * 3
        if depth < self.max_depth and budget[0] >= 3:
            kinds += ["IFRE"] * 2
        k = rng.choice(kinds)
        top = scopes[-1]
        if k == "RET":
            return [("return",)]
        if k == "ESC":
            # a closure over a variable declared by a statement of a loop body outlives its iteration:
            # it is called when the generator ends (every iteration has a variable of its own)
            n = rng.choice(esc_c)
            self.nesc = getattr(self, "nesc", 0) + 1
            return [("raw", "esc = append(esc, func() int {\n\t%s += %d\n\treturn %s\n})" % (n, self.k(), n))]
        if k == "DECL":
            cand = [n for n in self.NAMES if n not in top["vars"]]
            if not cand:
                k = "UPD" if wr else "Y"
            else:
                n = rng.choice(cand)
                e = self.expr(scopes)
                top["vars"].append(n)
                top.setdefault("own", []).append(n)
                form = rng.random()
                if form < 0.25:
                    return [("raw", "var %s = %s" % (n, e))]
                if form < 0.4:
                    return [("raw", "var %s int\n%s = %s" % (n, n, e))]
                if form < 0.5:
                    return [("raw", "var %s int\n%s += %s" % (n, n, e))]
                return [("decl", n, e)]
        if k == "MDEF":
            # multi-value ':=' that re-assigns a variable of this very block and declares a new one
            old = rng.choice(own)
            self.nclos += 1
            nv = "md%d" % self.nclos
            e1, e2 = self.expr(scopes), self.expr(scopes)
            return [("raw", "%s, %s := %s, %s" % (old, nv, e1, e2)), ("effv", 5, nv)]
        if k == "UPD":
            n = rng.choice(wr)
            return [("assign", n, self.expr(scopes))]
        if k == "Y":
            return [("yield", self.expr(scopes))]
        if k == "CLOS":
            self.nclos += 1
            n = rng.choice(wr) if wr else None
            if n and rng.random() < 0.5:
                name = "inc%d" % self.nclos
                top["clos"].append((name, "w"))
                return [("raw", "%s := func() { %s += %d }" % (name, n, self.k()))]
            name = "get%d" % self.nclos
            top["clos"].append((name, "r"))
            return [("raw", "%s := func() int { return %s }" % (name, self.expr(scopes)))]
        if k == "CALL":
            name, kind = rng.choice(self.closures(scopes))
            if kind == "w":
                return [("raw", "%s()" % name)]
            return [("yield", "%s() + %d" % (name, self.k()))]
        if k == "BRK":
            return [("break",)]
        if k == "CNT":
            return [("continue",)]
        g = rng.choice(["g1", "g2", "g3", "a > b"] + (["%s&1 == 0" % rng.choice(vis)] if vis else []))
        sub = lambda il=in_loop: self.body(budget, scopes, il, depth + 1) or [("eff", self.k())]
        if k == "IF":
            return [("if", g, sub(), None)]
        if k == "IFE":
            return [("if", g, sub(), sub())]
        if k == "IFRE":
            # the then-branch ends in a return, the else block declares (shadows) on its own
            then = sub()
            if then[-1][0] not in ("break", "continue", "return"):
                then = then + [("return",)]
            return [("if", g, then, sub())]
        if k == "BLK":
            return [("block", sub())]
        if k == "FOR":
            self.nloop += 1
            v = "i%d" % self.nloop
            inner = scopes + [{"vars": [v], "clos": [], "ro": [v]}]
            return [("for", ("decl", v, "0"), "%s < n" % v, ("inc", v), self.body(budget, inner, True, depth + 1) or [("eff", self.k())])]
        if k == "FORSH":
            # loop variable shadows x / y
            n = rng.choice(self.NAMES)
            inner = scopes + [{"vars": [n], "clos": [], "ro": [n]}]
            return [("for", ("decl", n, "0"), "%s < n" % n, ("inc", n), self.body(budget, inner, True, depth + 1) or [("eff", self.k())])]
        if k == "FORSHNC":
            # condition-less three-clause loop whose variable shadows x / y, left by break
            n = rng.choice(self.NAMES)
            inner = scopes + [{"vars": [n], "clos": [], "ro": [n]}]
            body = self.body(budget, inner, True, depth + 1) or [("eff", self.k())]
            return [("for", ("decl", n, "0"), None, ("inc", n), [("if", "%s >= n" % n, [("break",)], None)] + body)]
        if k == "FORSH2":
            # two-variable init: one name shadows x / y, the other is new; with and without condition
            n = rng.choice(self.NAMES)
            self.nloop += 1
            j = "fj%d" % self.nloop
            inner = scopes + [{"vars": [n, j], "clos": [], "ro": [n, j]}]
            body = self.body(budget, inner, True, depth + 1) or [("eff", self.k())]
            if rng.random() < 0.5:
                return [("for", ("raw", "%s, %s := 0, n+1" % (n, j)), "%s < %s" % (n, j), ("raw", "%s, %s = %s+1, %s-1" % (n, j, n, j)), body)]
            return [("for", ("raw", "%s, %s := 0, n+1" % (n, j)), None, ("raw", "%s, %s = %s+1, %s-1" % (n, j, n, j)), [("if", "%s >= %s" % (n, j), [("break",)], None)] + body)]
        if k == "WHILE":
            self.nloop += 1
            v = "w%d" % self.nloop
            top["vars"].append(v)
            top.setdefault("ro", []).append(v)
            return [("decl", v, "0"), ("for", None, "%s < n" % v, None, [("inc", v)] + (self.body(budget, scopes, True, depth + 1) or [("eff", self.k())]))]
        if k == "SWINIT":
            n = rng.choice(self.NAMES)
            init_e = "(%s) & 3" % self.expr(scopes)
            inner = scopes + [{"vars": [n], "clos": []}]
            cases = [(str(i), self.body(budget, inner, in_loop, depth + 1) or [("eff", self.k())]) for i in range(rng.randint(1, 2))]
            default = (self.body(budget, inner, in_loop, depth + 1) or [("eff", self.k())]) if rng.random() < 0.7 else None
            # break inside switch bodies would target the switch: strip loop jumps for simplicity
            cases = [(v, strip_jumps(b)) for v, b in cases]
            default = strip_jumps(default) if default is not None else None
            return [("switch", ("decl", n, init_e), n, cases, default)]
        if k == "TSW":
            e = self.expr(scopes)
            self.nclos += 1
            tv = "tv%d" % self.nclos
            n = "t%d" % self.nclos  # fresh name: the symbol is also declared (as any) in the default clause
            b1 = strip_jumps(self.body(budget, scopes, in_loop, depth + 1, pre=[n]) or [("eff", self.k())])
            b2 = strip_jumps(self.body(budget, scopes, in_loop, depth + 1) or [("eff", self.k())])
            return [("raw", "var %s any = %s\nif %s {\n\t%s = \"s\"\n}" % (tv, e, g, tv)),
                    ("tswitch", n, tv, [("int", b1)], b2)]
        if k == "RANGE" and wr and rng.random() < 0.4:
            # '=' forms assign to variables that are already in scope (observed after the loop)
            tgt = rng.choice(wr)
            kn, vn = rng.choice([("_", tgt), (tgt, None), (tgt, None if len(wr) < 2 else [w for w in wr if w != tgt][0])])
            coll = "[]int{%s, %s}" % (self.expr(scopes), self.expr(scopes))
            names = [t for t in (kn, vn) if t and t != "_"]
            inner = scopes + [{"vars": [], "clos": [], "ro": names}]
            body = [("effv", 6, t) for t in names] + (self.body(budget, inner, True, depth + 1) or [("eff", self.k())])
            return [("range", kn, vn, "=", coll, body)] + [("yield", "%s + %d" % (t, self.k())) for t in names]
        if k == "RANGE":
            kn, vn = rng.choice([("x", "y"), ("y", "x"), ("_", "x"), ("x", None)])
            names = [t for t in (kn, vn) if t and t != "_"]
            inner = scopes + [{"vars": names, "clos": []}]
            coll = "[]int{%s, %s}" % (self.expr(scopes), self.expr(scopes))
            return [("range", kn, vn, ":=", coll, [("effv", 6, t) for t in names] + (self.body(budget, inner, True, depth + 1) or [("eff", self.k())]))]
        return [("eff", self.k())]


def strip_jumps(body):
    out = []
    for s in body:
        k = s[0]
        if k in ("break", "continue"):
            out.append(("eff", 998))
        elif k == "if":
            out.append(("if", s[1], strip_jumps(s[2]), strip_jumps(s[3]) if s[3] is not None else None))
        elif k == "block":
            out.append(("block", strip_jumps(s[1])))
        elif k == "switch":
            out.append(("switch", s[1], s[2], [(v, strip_jumps(b)) for v, b in s[3]], strip_jumps(s[4]) if s[4] is not None else None))
        elif k == "tswitch":
            out.append(("tswitch", s[1], s[2], [(v, strip_jumps(b)) for v, b in s[3]], strip_jumps(s[4]) if s[4] is not None else None))
        else:
            out.append(s)
    return out


# ---------------------------------------------------------------------------------------------
# C04: range loops inside generators


def c04_programs(strlens=(0, 1, 2, 3), only_int=False):
    """directed-combinatorial: collection kind x variable form x body shape"""
    progs = []
    kinds = []
    if only_int:
        strlens = ()
    for L in strlens:
        kinds.append(("str%d" % L, ["s := rt.NondetString(7, %d)" % L], "s", "int", "rune", ["s = \"zz\""]))
    for L in [x for x in strlens if x >= 2][:2]:
        # the range expression is a conversion of a string: a slice range, keys are element positions
        kinds.append(("runesconv%d" % L, ["s := rt.NondetString(7, %d)" % L], "[]rune(s)", "int", "rune", ["s = \"zz\""]))
        kinds.append(("bytesconv%d" % L, ["s := rt.NondetString(7, %d)" % L], "[]byte(s)", "int", "byte", []))
    kinds.append(("slice3", ["sl := []int{a, b, a + b}"], "sl", "int", "int", ["sl[1] = b + 7", "sl = append(sl, a + 9)", "sl = sl[:1]", "sl[2] = sl[0] + 1"]))
    kinds.append(("slice0", ["sl := []int{}"], "sl", "int", "int", ["sl = append(sl, a + 9)"]))
    kinds.append(("slicenil", ["var sl []int"], "sl", "int", "int", ["sl = append(sl, a + 9)"]))
    kinds.append(("array", ["arr := [3]int{a, b, a + 1}"], "arr", "int", "int", ["arr[1] = b + 7", "arr[2] = arr[0] + 1"]))
    kinds.append(("mapii", ["m := map[int]int{1: a, 2: b, 3: a + b}"], "m", "int", "int", ["delete(m, 2)", "m[3] = b + 7", "delete(m, 3)", "m[9] = a + 9"]))
    kinds.append(("mapnil", ["var m map[int]int"], "m", "int", "int", []))
    # observers between receives: the number of buffered elements, a second receiver
    kinds.append(("chan", ["ch := make(chan int, 3)\nch <- a\nch <- b\nch <- a + b\nclose(ch)"], "ch", "int", None,
                  ["rt.Emit(40, len(ch))", "if w, ok := <-ch; ok {\n\trt.Emit(41, w)\n}"]))

    kinds.append(("ptrarray", ["pa := [3]int{a, b, a + 1}"], "&pa", "int", "int", ["pa[1] = b + 7"]))
    # the range expression is a call with an effect: it must be evaluated exactly once
    kinds.append(("callslice", ["gets := func() []int {\n\trt.Emit(rt.EFF, 71)\n\treturn []int{a, b, a + b}\n}"], "gets()", "int", "int", []))
    kinds.append(("callptrarray", ["pa := [3]int{a, b, a + 1}\ngetp := func() *[3]int {\n\trt.Emit(rt.EFF, 72)\n\treturn &pa\n}"], "getp()", "int", "int", []))
    kinds.append(("callmap", ["getm := func() map[int]int {\n\trt.Emit(rt.EFF, 73)\n\treturn map[int]int{1: a, 2: b}\n}"], "getm()", "int", "int", []))
    kinds.append(("callstr", ["getstr := func() string {\n\trt.Emit(rt.EFF, 74)\n\treturn rt.NondetString(7, 2)\n}"], "getstr()", "int", "rune", []))
    if only_int:
        # range over an integer (go >= 1.22 sources): n symbolic in the driver's range, also n <= 0
        kinds = [("intn", [], "n", "int", None, ["n = n + 5"]), ("intexpr", ["m := n + 1"], "m - 1", "int", None, ["m = 0"])]
    for kname, setup, coll, kt, vt, muts in kinds:
        forms = [("kv", "k", "v", ":="), ("k", "k", None, ":="), ("v", "_", "v", ":="), ("none", None, None, ":="), ("assign", "k", "v", "="),
                 ("assignv", "_", "v", "="), ("assignk", "k", None, "=")]
        if vt == "int" and not only_int:
            # the value's left operand depends on the key variable: Go evaluates the operands of the
            # iteration variables before assigning either
            forms.append(("assigndep", "k", "dst[k&7]", "="))
        if vt is None:  # channel: one variable only
            forms = [("k", "k", None, ":="), ("none", None, None, ":="), ("assign1", "k", None, "=")]
        for fname, K, V, tok in forms:
            def val(K=K, V=V):
                parts = []
                if K and K != "_":
                    parts.append("%s*100" % K if kt == "int" else K)
                if V:
                    parts.append("int(%s)" % V if vt in ("rune", "byte") else V)
                return " + ".join(parts) if parts else "a"

            pre = [("raw", x) for x in setup]
            if tok == "=":
                decl = []
                if K and K != "_":
                    decl.append("var k int = 3")
                if V == "v":
                    decl.append("var v %s = %s" % (vt if vt in ("rune", "byte") else "int", "9" if vt == "byte" else "-9"))
                elif V:
                    decl.append("dst := make([]int, 8)")
                pre.append(("raw", "\n".join(decl)))
            post = []
            if tok == "=":
                obs = []
                if K and K != "_":
                    obs.append("int(k)*100")
                if V == "v":
                    obs.append("int(v)")
                post.append(("yield", " + ".join(obs) + " + 1"))
                if V and V != "v":
                    post.append(("raw", "for di, dv := range dst {\n\trt.Emit(49, di*1000+dv)\n}"))
            shapes = []
            shapes.append(("y", [("yield", val())]))
            shapes.append(("noy", [("assign", "t", "t + " + val())]))
            shapes.append(("cont", [("if", "g1", [("continue",)], None), ("yield", val())]))
            shapes.append(("brk", [("yield", val()), ("if", "g2", [("break",)], None)]))
            for mi, mtxt in enumerate(muts):
                shapes.append(("mutb%d" % mi, [("if", "g1", [("raw", mtxt)], None), ("yield", val())]))
                shapes.append(("muta%d" % mi, [("yield", val()), ("if", "g1", [("raw", mtxt)], None)]))
                shapes.append(("mutn%d" % mi, [("assign", "t", "t + " + val()), ("if", "g1", [("raw", mtxt)], None)]))
            shapes.append(("nest", [("range", "_", "w", ":=", "[]int{1, 2}", [("yield", val() + " + w")])]))
            # yield-free loop bodies with a switch: continue / break stay native
            shapes.append(("noy_sw_cont", [("switch", None, "(%s)&1" % val(), [("0", [("continue",)])], None), ("assign", "t", "t + " + val())]))
            shapes.append(("noy_sw_brk", [("switch", None, "(%s)&1" % val(), [("0", [("break",)])], [("assign", "t", "t + 1")]), ("assign", "t", "t + " + val())]))
            shapes.append(("closure_capture", [("raw", "get := func() int { return %s }" % val()), ("yield", "get()")]))
            if tok == "=":
                # nothing in the body: the iteration variables are still assigned on every iteration
                shapes.append(("empty", []))
            if (K and K != "_") or V:
                # closures created in one iteration and called after the loop: which variable they
                # captured (per loop before go 1.22, per iteration from go 1.22 on) is observable
                shapes.append(("cap_esc_y", [("raw", "fs = append(fs, func() int { return %s })" % val()), ("yield", val())]))
                shapes.append(("cap_esc_noy", [("raw", "fs = append(fs, func() int { return %s })" % val())]))
            for sname, body in shapes:
                stmts = list(pre) + [("decl", "t", "0")]
                if sname.startswith("cap_esc"):
                    stmts.append(("raw", "var fs []func() int"))
                stmts.append(("range", K, V, tok, coll, body))
                if sname.startswith("cap_esc"):
                    stmts.append(("raw", "for _, f := range fs {\n\tYield(f() + 1000)\n}"))
                stmts += post
                stmts.append(("yield", "t + 5"))
                pid = "r_%s_%s_%s" % (kname, fname, sname)
                tags = {"range:" + kname.rstrip("0123"), "form:" + fname, "body:" + sname}
                if kname == "array" and V and sname.startswith("mut"):
                    tags.add("range-array-by-value+mutation")
                if "map" in kname:
                    tags.add("map-order")
                if sname.startswith("cap_esc") and tok == ":=" and not only_int:
                    # go < 1.22 sources: one variable per loop; the generated loop declares it per iteration
                    tags.add("range-var-captured-across-iterations")
                progs.append(Program(pid, stmts, family="rng_" + kname.rstrip("0123"), tags=tags))
        # range inside a non-generator closure of the generator
        if vt is not None:
            vexpr = "int(v)" if vt in ("rune", "byte") else "v"
            stmts = [("raw", x) for x in setup]
            stmts.append(("raw", "sum := func() int {\n\tt := 0\n\tfor k, v := range %s {\n\t\tt += k*100 + %s\n\t}\n\treturn t\n}" % (coll, vexpr)))
            stmts += [("yield", "sum() + 1")]
            if muts:
                stmts += [("raw", muts[0]), ("yield", "sum() + 2")]
            progs.append(Program("r_%s_closure" % kname, stmts, family="rng_" + kname.rstrip("0123"), tags={"range-in-closure", "range:" + kname.rstrip("0123")} | ({"map-order"} if "map" in kname else set())))
    return progs


# ---------------------------------------------------------------------------------------------
# C06: consumer-side code. `@` in templates is replaced by the program id.

C06_GENS = """func GA@(a, n int) (_ Iter[int]) {
	for i := 0; i < n+2; i++ {
		rt.Emit(rt.EFF, 600+i)
		Yield(a + i*10)
	}
	rt.Emit(rt.EFF, 699)
	return
}

func GB@(b int) Iter[int] {
	for {
		rt.Emit(rt.EFF, 650)
		Yield(b)
		b += 3
	}
}

func GC@(a, b int) (_ Iter[int]) {
	rt.Emit(rt.EFF, 660)
	Yield(a - b)
	rt.Emit(rt.EFF, 661)
	Yield(b - a)
	rt.Emit(rt.EFF, 662)
	return
}

type box@ struct {
	it   Iter[int]
	base int
}

func (x box@) Gen(k int) (_ Iter[int]) {
	for i := 0; i < k; i++ {
		rt.Emit(rt.EFF, 670+i)
		Yield(x.base + i)
	}
	return
}

func take@[T any](it Iter[T], k int) []T {
	var out []T
	for i := 0; i < k && it.MoveNext(); i++ {
		out = append(out, it.Current())
	}
	return out
}

func mapIt@[T, U any](it Iter[T], f func(T) U) (_ Iter[U]) {
	for v := range it {
		rt.Emit(rt.EFF, 680)
		Yield(f(v))
	}
	return
}

func sum@(xs []int) int {
	t := 0
	for _, x := range xs {
		t = (t << 1) ^ x
	}
	return t
}
"""

C06_DRIVER = """func Drive_G@() {
	a, b, n := rt.NondetInt(1), rt.NondetInt(2), rt.NondetInt(3)
	g1, g2, g3 := rt.NondetBool(4), rt.NondetBool(5), rt.NondetBool(6)
	rt.Assume(n >= -1 && n <= 2)
	rt.Emit(rt.CREATED, 0)
	r := C@(a, b, n, g1, g2, g3)
	rt.Emit(rt.RESULT, r)
	rt.Emit(rt.END, 0)
}"""


def c06_loop_body(rng, var, acc="t", allow_return=True):
    """random consumer loop body using `var`"""
    guards = ["g1", "g2", "g3", "%s > a+10" % var, "%s&1 == 0" % var, "%s > b" % var]
    stmts = ["%s = (%s << 1) ^ %s" % (acc, acc, var), "rt.Emit(46, %s)" % var]
    jumps = ["break", "continue"] + (["return %s" % acc] if allow_return else [])
    for _ in range(rng.randint(1, 3)):
        g = rng.choice(guards)
        if rng.random() < 0.4:
            g = "%s && %s" % (g, rng.choice(guards))
        stmts.append("if %s {\n\t%s\n}" % (g, rng.choice(jumps)))
    rng.shuffle(stmts)
    # hard bound on the number of iterations (sources may be infinite)
    return "lim++\nif lim > 3 {\n\tbreak\n}\n" + "\n".join(stmts)


def indent(txt, n=1):
    return "\n".join(("\t" * n + l) if l else l for l in txt.split("\n"))


def c06_consumer(rng, shape):
    """returns Go text of func C@(a, b, n int, g1, g2, g3 bool) int"""
    src = rng.choice(["GA@(a, n)", "GB@(b)", "GC@(a, b)", "(box@{base: a}).Gen(n + 1)", "mapIt@(GA@(a, n), func(x int) int { return x + b })"])
    fin = rng.choice(["GA@(a, n)", "GC@(a, b)", "(box@{base: b}).Gen(n + 2)"])  # finite sources
    head = "func C@(a, b, n int, g1, g2, g3 bool) int {\n\tt := 0\n\tlim := 0\n\t_ = lim\n"
    tail = "\trt.Emit(47, t)\n\treturn t\n}\n"
    if shape == "range_define":
        return head + "\tfor v := range %s {\n%s\n\t}\n" % (src, indent(c06_loop_body(rng, "v"), 2)) + tail
    if shape == "range_assign":
        return head + "\tvar v int\n\tfor v = range %s {\n%s\n\t}\n\tt = (t << 1) ^ v\n" % (src, indent(c06_loop_body(rng, "v"), 2)) + tail
    if shape == "nested":
        inner = c06_loop_body(rng, "w", allow_return=True)
        return head + "\tfor v := range %s {\n\t\tt += v\n\t\tfor w := range %s {\n%s\n\t\t}\n\t\tif g3 && v > a {\n\t\t\tbreak\n\t\t}\n\t}\n" % (fin, rng.choice(["GC@(v, b)", "GA@(v, n)", "GB@(v)"]), indent(inner, 3)) + tail
    if shape == "pull_inside_range":
        # pairing / skipping: the body advances the ranged iterator by hand before it uses the loop variable
        return head + "\tit := %s\n\tfor v := range it {\n\t\tlim++\n\t\tif lim > 3 {\n\t\t\tbreak\n\t\t}\n\t\tif !it.MoveNext() {\n\t\t\trt.Emit(46, -1)\n\t\t\tt = (t << 1) ^ v\n\t\t\tbreak\n\t\t}\n\t\tw := it.Current()\n\t\trt.Emit(46, w)\n\t\tt = (t << 2) ^ (v*3 + w)\n\t}\n" % src + tail
    if shape == "skip_inside_range":
        return head + "\tit := %s\n\tfor v := range it {\n\t\tlim++\n\t\tif lim > 3 {\n\t\t\tbreak\n\t\t}\n\t\tif g1 {\n\t\t\tit.MoveNext()\n\t\t}\n\t\trt.Emit(rt.EFF, 690)\n\t\tt = (t << 1) ^ v\n\t\tif g2 && v > b {\n\t\t\tcontinue\n\t\t}\n\t\trt.Emit(46, it.Current())\n\t}\n" % src + tail
    if shape == "pull_then_range":
        return head + "\tit := %s\n\tif it.MoveNext() {\n\t\tt = it.Current()\n\t\trt.Emit(46, t)\n\t}\n\tfor v := range it {\n%s\n\t}\n" % (src, indent(c06_loop_body(rng, "v"), 2)) + tail
    if shape == "range_then_pull":
        return head + "\tit := %s\n\tfor v := range it {\n%s\n\t}\n\tif it.MoveNext() {\n\t\tt = (t << 1) ^ it.Current()\n\t}\n\trt.Emit(46, it.Current())\n" % (src, indent(c06_loop_body(rng, "v", allow_return=False), 2)) + tail
    if shape == "struct_field":
        return head + "\tbx := box@{it: %s, base: b}\n\tfor v := range bx.it {\n%s\n\t}\n\tfor w := range bx.Gen(2) {\n\t\tt += w\n\t}\n" % (src, indent(c06_loop_body(rng, "v"), 2)) + tail
    if shape == "map_slice":
        return head + "\tm := map[int]Iter[int]{1: %s, 2: %s}\n\tits := []Iter[int]{m[2], m[1]}\n\tfor i, it := range its {\n\t\tfor v := range it {\n%s\n\t\t}\n\t\trt.Emit(48, i)\n\t}\n" % (fin, src, indent(c06_loop_body(rng, "v", allow_return=False), 3)) + tail
    if shape == "closure_pull":
        return head + "\tit := %s\n\tnext := func() (int, bool) {\n\t\tok := it.MoveNext()\n\t\treturn it.Current(), ok\n\t}\n\tfor k := 0; k < 3; k++ {\n\t\tv, ok := next()\n\t\tif !ok {\n\t\t\tbreak\n\t\t}\n%s\n\t}\n" % (src, indent(c06_loop_body(rng, "v", allow_return=True), 2)) + tail
    if shape == "generic_take":
        return head + "\txs := take@(%s, n+1)\n\tt = sum@(xs)\n\tys := take@(mapIt@(%s, func(x int) int { return x*2 + a }), 2)\n\tt = (t << 1) ^ sum@(ys)\n" % (src, fin) + tail
    if shape == "field_reassigned_in_loop":
        return head + "\tbx := box@{it: %s, base: b}\n\tfor v := range bx.it {\n%s\n\t\tif v > a {\n\t\t\tbx.it = %s\n\t\t}\n\t}\n\tfor w := range bx.it {\n\t\tt = (t << 1) ^ w\n\t\tlim++\n\t\tif lim > 6 {\n\t\t\tbreak\n\t\t}\n\t}\n" % (fin, indent(c06_loop_body(rng, "v", allow_return=False), 2), rng.choice(["GC@(b, a)", "GA@(b, n)"])) + tail
    if shape == "index_changed_in_loop":
        return head + "\tits := []Iter[int]{%s, %s}\n\ti := 0\n\tfor v := range its[i] {\n%s\n\t\ti = 1\n\t}\n\tfor w := range its[1] {\n\t\tt = (t << 1) ^ w\n\t\tlim++\n\t\tif lim > 6 {\n\t\t\tbreak\n\t\t}\n\t}\n" % (fin, rng.choice(["GC@(b, a)", "GA@(b, n)"]), indent(c06_loop_body(rng, "v", allow_return=False), 2)) + tail
    if shape == "map_entry_reassigned_in_loop":
        return head + "\tm := map[int]Iter[int]{1: %s, 2: %s}\n\tfor v := range m[1] {\n%s\n\t\tm[1] = m[2]\n\t}\n\tfor w := range m[2] {\n\t\tt = (t << 1) ^ w\n\t\tlim++\n\t\tif lim > 6 {\n\t\t\tbreak\n\t\t}\n\t}\n" % (fin, rng.choice(["GC@(b, a)", "GA@(b, n)"]), indent(c06_loop_body(rng, "v", allow_return=False), 2)) + tail
    if shape == "operand_evaluated_once":
        return ("func mk@(x int) Iter[int] {\n\trt.Emit(rt.EFF, 690)\n\treturn GC@(x, 1)\n}\n\n" +
                head + "\tfor v := range mk@(a) {\n%s\n\t}\n" % indent(c06_loop_body(rng, "v"), 2) + tail)
    if shape == "first_match_nested":
        return head + "\tfor k := 0; k < 2; k++ {\n\t\tfor v := range %s {\n\t\t\tif v&1 == 1 {\n\t\t\t\tcontinue\n\t\t\t}\n\t\t\tif g1 && v > a {\n\t\t\t\tbreak\n\t\t\t}\n\t\t\tt = (t << 1) ^ v\n\t\t\tbreak\n\t\t}\n\t\trt.Emit(48, k)\n\t}\n" % fin + tail
    if shape == "first_element":
        return head + "\tfor v := range %s {\n\t\tt = v\n\t\tbreak\n\t}\n\tfor k := 0; k < 2; k++ {\n\t\tfor w := range %s {\n\t\t\tif g2 {\n\t\t\t\tcontinue\n\t\t\t}\n\t\t\tt = (t << 1) ^ w\n\t\t\tbreak\n\t\t}\n\t}\n" % (src, fin) + tail
    if shape == "assign_to_element_moving_index":
        return head + "\tdst := make([]int, 6)\n\ti := 0\n\tfor dst[i] = range %s {\n\t\ti++\n\t\tif i >= 5 || (g1 && i >= 2) {\n\t\t\tbreak\n\t\t}\n\t}\n\tfor _, d := range dst {\n\t\trt.Emit(49, d)\n\t\tt = (t << 1) ^ d\n\t}\n" % fin + tail
    if shape == "assign_to_field_moving_pointer":
        return ("type node@ struct {\n\tval  int\n\tnext *node@\n}\n\n" + head +
                "\tn3 := &node@{}\n\tn2 := &node@{next: n3}\n\tn1 := &node@{next: n2}\n\tp := n1\n\tfor p.val = range %s {\n\t\tif p.next == nil || (g2 && p == n2) {\n\t\t\tbreak\n\t\t}\n\t\tp = p.next\n\t}\n\trt.Emit(49, n1.val)\n\trt.Emit(49, n2.val)\n\trt.Emit(49, n3.val)\n\tt = n1.val ^ (n2.val << 1) ^ (n3.val << 2)\n" % fin + tail)
    if shape == "assign_to_deref_moving_pointer":
        return head + "\tvar arr [4]int\n\tq := &arr[0]\n\tj := 0\n\tfor *q = range %s {\n\t\tj++\n\t\tif j >= 4 {\n\t\t\tbreak\n\t\t}\n\t\tq = &arr[j]\n\t}\n\tfor _, d := range arr {\n\t\trt.Emit(49, d)\n\t\tt = (t << 1) ^ d\n\t}\n" % fin + tail
    if shape == "assign_to_map_entry_moving_key":
        return head + "\tm := map[int]int{}\n\tk := 0\n\tfor m[k] = range %s {\n\t\tk++\n\t\tif k >= 3 {\n\t\t\tbreak\n\t\t}\n\t}\n\tfor q := 0; q < 3; q++ {\n\t\trt.Emit(49, m[q])\n\t\tt = (t << 1) ^ m[q]\n\t}\n" % fin + tail
    if shape == "take_while_then_reuse":
        # a generator that stops consuming its source by a break raised before the iteration's yield;
        # the source is used again afterwards: no element may be pulled and lost
        return ("func TW@(src Iter[int], lim int) (_ Iter[int]) {\n\tfor v := range src {\n\t\tif v > lim {\n\t\t\tbreak\n\t\t}\n\t\tYield(v)\n\t}\n\treturn\n}\n\n" +
                head + "\tsrc := GA@(a, n)\n\tfor w := range TW@(src, a+10) {\n\t\tt = (t << 1) ^ w\n\t}\n\trt.Emit(rt.EFF, 694)\n\tfor v := range src {\n\t\tt = (t << 1) ^ v\n\t\tlim++\n\t\tif lim > 3 {\n\t\t\tbreak\n\t\t}\n\t}\n\tif src.MoveNext() {\n\t\tt ^= src.Current()\n\t}\n" + tail)
    if shape == "stored_in_any_type_switch":
        # iterators stored in interface values and recovered by a type switch / assertion
        return head + "\tboxes := []any{%s, a, %s}\n\tfor _, bx := range boxes {\n\t\tswitch x := bx.(type) {\n\t\tcase Iter[int]:\n\t\t\tfor v := range x {\n\t\t\t\tt = (t << 1) ^ v\n\t\t\t\tlim++\n\t\t\t\tif lim > 5 {\n\t\t\t\t\tbreak\n\t\t\t\t}\n\t\t\t}\n\t\tcase int:\n\t\t\tt += x\n\t\tcase []Iter[int]:\n\t\t\tt += len(x)\n\t\t}\n\t}\n\tif it, ok := boxes[2].(Iter[int]); ok && it.MoveNext() {\n\t\tt = (t << 1) ^ it.Current()\n\t}\n" % (fin, rng.choice(["GC@(b, a)", "GA@(b, n)"])) + tail
    if shape == "peek_before_range":
        # Current() on an iterator that was never advanced reads the zero value and runs nothing
        return head + "\tit := %s\n\tprev := it.Current()\n\trt.Emit(46, prev)\n\tcur := struct {\n\t\tit   Iter[int]\n\t\tlast int\n\t}{it: %s}\n\tcur.last = cur.it.Current()\n\trt.Emit(46, cur.last)\n\tfor v := range it {\n%s\n\t}\n\tif cur.it.MoveNext() {\n\t\tt = (t << 1) ^ cur.it.Current()\n\t}\n" % (src, fin, indent(c06_loop_body(rng, "v"), 2)) + tail
    if shape == "consumer_generator_switch":
        # a generator that consumes another iterator: range over an Iter with switch / continue / break around yields
        return ("func CG@(a, n int, g1, g2 bool) (_ Iter[int]) {\n\tfor v := range GA@(a, n) {\n\t\tswitch {\n\t\tcase v&1 == 1:\n\t\t\tYield(v)\n\t\t\tcontinue\n\t\tcase g1:\n\t\t\tYield(v + 1)\n\t\t\tif g2 {\n\t\t\t\tbreak\n\t\t\t}\n\t\t\tYield(v + 2)\n\t\t}\n\t\tYield(v + 3)\n\t}\n\treturn\n}\n\n" +
                "func CP@(b, n int, g1 bool) (_ Iter[int]) {\n\tit := GA@(b, n)\n\tfor ; it.MoveNext(); Yield(0) {\n\t\tv := it.Current()\n\t\tif v&1 == 0 {\n\t\t\tcontinue\n\t\t}\n\t\tYield(v)\n\t\tif g1 {\n\t\t\tbreak\n\t\t}\n\t}\n\treturn\n}\n\n" +
                head + "\tfor v := range CG@(a, n, g1, g2) {\n\t\tt = (t << 1) ^ v\n\t\tlim++\n\t\tif lim > 7 {\n\t\t\tbreak\n\t\t}\n\t}\n\tfor w := range CP@(b, n, g3) {\n\t\tt = (t << 1) ^ w\n\t\tlim++\n\t\tif lim > 14 {\n\t\t\tbreak\n\t\t}\n\t}\n" + tail)
    if shape == "loopvar_redeclared_in_body":
        # the loop variable has a scope of its own: a ':=' of the same name in the body shadows it
        return head + "\tfor v := range %s {\n\t\tf := func() int { return v }\n\t\tv, w := v*10, v+1\n\t\tt = (t << 1) ^ f() ^ (v << 2) ^ (w << 3)\n\t\tlim++\n\t\tif lim > 4 || (g1 && w > a) {\n\t\t\tbreak\n\t\t}\n\t}\n" % src + tail
    if shape == "loopvar_shadowed_first_stmt":
        return head + "\tfor v := range %s {\n\t\tv := v + b\n\t\tt = (t << 1) ^ v\n\t\tlim++\n\t\tif lim > 4 {\n\t\t\tbreak\n\t\t}\n\t}\n" % src + tail
    if shape == "typed_nil_marker":
        # nil as "not opened yet": the conversion Iter[int](nil) is an occurrence of the iterator type too
        return head + "\tvar it Iter[int] = Iter[int](nil)\n\talt := (Iter[int])(nil)\n\tvar zero Iter[int]\n\tif g1 {\n\t\tit = %s\n\t}\n\tif it == nil {\n\t\trt.Emit(rt.EFF, 691)\n\t\tit = %s\n\t}\n\tif alt == nil && zero == nil {\n\t\trt.Emit(rt.EFF, 692)\n\t}\n\tfor v := range it {\n%s\n\t}\n" % (fin, rng.choice(["GC@(a, b)", "GA@(b, n)"]), indent(c06_loop_body(rng, "v"), 2)) + tail
    if shape == "typed_nil_reset":
        return head + "\tit := %s\n\tfor k := 0; k < 2; k++ {\n\t\tif it == nil {\n\t\t\trt.Emit(rt.EFF, 693)\n\t\t\tit = %s\n\t\t}\n\t\tif it.MoveNext() {\n\t\t\tt = (t << 1) ^ it.Current()\n\t\t}\n\t\tif g2 {\n\t\t\tit = Iter[int](nil)\n\t\t}\n\t}\n" % (fin, rng.choice(["GC@(a, b)", "GA@(b, n)"])) + tail
    if shape == "param_pass":
        return ("func drain@(it Iter[int], lim int, g bool) int {\n\tt := 0\n\tfor v := range it {\n\t\tt = (t << 1) ^ v\n\t\tlim--\n\t\tif lim <= 0 || (g && v > 5) {\n\t\t\tbreak\n\t\t}\n\t}\n\treturn t\n}\n\n" +
                head + "\tit := %s\n\tt = drain@(it, 2, g1)\n\trt.Emit(46, t)\n\tt = (t << 1) ^ drain@(it, 2, g2)\n" % src + tail)
    raise ValueError(shape)


C06_SHAPES = ["range_define", "range_assign", "nested", "pull_inside_range", "skip_inside_range", "pull_then_range", "range_then_pull", "struct_field", "map_slice", "closure_pull", "generic_take", "param_pass",
              "field_reassigned_in_loop", "index_changed_in_loop", "map_entry_reassigned_in_loop", "operand_evaluated_once",
              "first_match_nested", "first_element",
              "assign_to_element_moving_index", "assign_to_field_moving_pointer", "assign_to_deref_moving_pointer", "assign_to_map_entry_moving_key",
              "typed_nil_marker", "typed_nil_reset", "loopvar_redeclared_in_body", "loopvar_shadowed_first_stmt", "consumer_generator_switch", "peek_before_range", "stored_in_any_type_switch", "take_while_then_reuse"]


def c06_programs(rng, per_shape):
    progs = []
    n = 0
    for shape in C06_SHAPES:
        for _ in range(per_shape):
            pid = "c%04d" % n
            n += 1
            text = (C06_GENS + "\n" + c06_consumer(rng, shape) + "\n" + C06_DRIVER).replace("@", pid)
            # the Program's own generator is a trivial one (kept so that the file layout is uniform)
            p = Program(pid, [("yield", "a")], helpers="", family="con", tags={"consumer:" + shape})
            p.driver = text
            progs.append(p)
    return progs


# ---------------------------------------------------------------------------------------------
# C13: bystander declarations co-located with generators ('@' = program id)

C13_COMMON = """type pt@ struct{ x, y int }

func (p pt@) Sum() int      { return p.x + p.y }
func (p *pt@) Shift(d int)  { p.x += d; p.y -= d }
func (p *pt@) Add(d int) int { p.x += d; return p.x }
func idg@[T any](x T) T     { return x }
func dbl@(x int) int        { return x + x }
func sub@(x, y int) int     { return x - y }
func join3@(x, y, z int) int { return (x << 2) ^ (y << 1) ^ z }

type myErr@ struct{}

func (*myErr@) Error() string { return "e" }
func mayFail@() *myErr@   { return nil }
func sum3@(xs ...int) int {
	t := 0
	for _, x := range xs {
		t += x
	}
	return t
}
func wide@(x int) int64 { return int64(x) + 1 }

const k@ = 7

var tbl@ = []int{3, 1, 4, 1, 5}
var fnv@ = func(x int) int { return dbl@(x) }
var cnt@ int
"""

C13_BODIES = [
    ("arith", "r := a + k@\nif g1 {\n\tr = r ^ b\n}\nfor i, v := range tbl@ {\n\tr += i*v + len(tbl@)\n}\nreturn r"),
    ("eta_funcvar", "h := func(x int) int { return x + 1 }\nf := func(x int) int { return h(x) }\nr := f(a)\nh = func(x int) int { return x + 2 }\nreturn (r << 4) ^ f(b)"),
    ("eta_method_value", "p := pt@{a, b}\nget := func() int { return p.Sum() }\nr := get()\np = pt@{b, 1}\nreturn (r << 4) ^ get()"),
    ("eta_ptr_receiver", "var q *pt@\nsh := func(d int) { q.Shift(d) }\nq = &pt@{a, b}\nsh(3)\nreturn q.x ^ (q.y << 3)"),
    ("eta_ptr_receiver_return", "cur := &pt@{a, 0}\nadd := func(d int) int { return cur.Add(d) }\nr := add(1)\ncur = &pt@{b, 0}\nr = (r << 4) ^ add(2)\nreturn (r << 4) ^ cur.x"),
    ("eta_ptr_receiver_nil_first", "var cur *pt@\nadd := func(d int) int { return cur.Add(d) }\ncur = &pt@{a, 0}\nreturn add(b)"),
    ("eta_field_func", "type holder struct{ f func(int) int }\nh := holder{f: func(x int) int { return x + 1 }}\ncall := func(x int) int { return h.f(x) }\nr := call(a)\nh.f = func(x int) int { return x + 2 }\nreturn (r << 4) ^ call(a)"),
    ("eta_iface_method", "var sm interface{ Sum() int } = pt@{a, 1}\nget := func() int { return sm.Sum() }\nr := get()\nsm = pt@{b, 2}\nreturn (r << 4) ^ get()"),
    ("eta_funcvar_multi_define", "h := func(x int) int { return x + 1 }\nf := func(x int) int { return h(x) }\nr := f(a)\nh, k := func(x int) int { return x + 20 }, b\nreturn (r << 4) ^ f(a) ^ k"),
    ("eta_funcvar_param", "apply := func(h func(int) int) func(int) int {\n\tw := func(x int) int { return h(x) }\n\th = func(x int) int { return x + 30 }\n\treturn w\n}\nreturn apply(func(x int) int { return x + 1 })(a) + b"),
    ("eta_funcvar_addr_taken", "h := func(x int) int { return x + 1 }\nf := func(x int) int { return h(x) }\np := &h\nr := f(a)\n*p = func(x int) int { return x + 40 }\nreturn (r << 4) ^ f(b)"),
    ("eta_funcvar_range_assign", "h := func(x int) int { return x + 1 }\nf := func(x int) int { return h(x) }\nr := f(a)\nfor _, h = range []func(int) int{func(x int) int { return x + 50 }} {\n}\nreturn (r << 4) ^ f(b)"),
    ("eta_result_interface_conversion", "f := func() error { return mayFail@() }\nr := 0\nif f() != nil {\n\tr = 1\n}\nvar e error = f()\nif e == nil {\n\tr += 2\n}\nreturn r + a"),
    ("eta_variadic_vs_slice", "f := func(xs []int) int { return sum3@(xs...) }\ng := func(x, y int) int { return sum3@(x, y) }\nreturn f([]int{a, b}) + g(a, 1)"),
    ("eta_unnamed_and_blank_params", "f := func(_ int, y int) int { return dbl@(y) }\ng := func(x int, _ int) int { return dbl@(x) }\nreturn (f(a, b) << 4) ^ g(a, b)"),
    ("eta_named_func_type", "type fn func(int) int\nvar f fn = func(x int) int { return dbl@(x) }\nvar g any = func(x int) int { return dbl@(x) }\n_, isFn := g.(fn)\nr := f(a)\nif isFn {\n\tr++\n}\nreturn r"),
    ("eta_permuted", "flip := func(x, y int) int { return sub@(y, x) }\nsame := func(x, y int) int { return sub@(x, y) }\nreturn (flip(a, b) << 8) ^ same(a, b)"),
    ("eta_duplicated", "dup := func(x, y int) int { return sub@(y, y) }\nfst := func(x, y int) int { return dbl@(x) }\nreturn (dup(a, b) << 8) ^ fst(a, b)"),
    ("eta_rotated3", "rot := func(x, y, z int) int { return join3@(z, x, y) }\nreturn rot(a, b, a + b)"),
    ("eta_grouped_params", "g := func(x, y int) int { return sub@(x, y) }\nh := func(x int, y int) int { return sub@(x, y) }\nreturn (g(a, b) << 8) ^ h(b, a)"),
    ("eta_builtin", "ln := func(s []int) int { return len(s) }\nreturn ln(tbl@) + a"),
    ("eta_conversion", "cv := func(x int) int32 { return int32(x) }\nreturn int(cv(a)) + b"),
    ("eta_generic_inferred", "f := func(x int) int { return idg@(x) }\nreturn f(a) + b"),
    ("eta_generic_explicit", "f := func(x int) int { return idg@[int](x) }\nreturn f(a) + b"),
    ("eta_declared", "f := func(x int) int { return dbl@(x) }\nreturn f(a) + fnv@(b)"),
    ("eta_pkg_var", "old := fnv@\nf := func(x int) int { return fnv@(x) }\nr := f(a)\nfnv@ = func(x int) int { return x + 100 }\nr = (r << 4) ^ f(a)\nfnv@ = old\nreturn r"),
    ("eta_variadic_literal_no_spread", "f := func(xs ...any) int { return vcount@(xs) }\ng := func(xs ...any) int { return vcount@(xs...) }\nreturn (f(a, b, 1) << 4) ^ g(a, b)"),
    ("hand_written_bind_unstable_callee", "next := func() SEQPKG.Seq[int] { return SEQPKG.Bind[int](a+1, SEQPKG.Normal[int]) }\nit := SEQPKG.Start[int](SEQPKG.Bind[int](a, func() SEQPKG.Seq[int] { return next() }))\nnext = func() SEQPKG.Seq[int] { return SEQPKG.Bind[int](b+2, SEQPKG.Normal[int]) }\nr := 0\nfor it.MoveNext() {\n\tr = r*16 + it.Current()\n}\nreturn r"),
    ("hand_written_bind_method_value_callee", "st := &stage@{}\nit := SEQPKG.Start[int](SEQPKG.Bind[int](a, func() SEQPKG.Seq[int] { return st.rest() }))\nr, k := 0, 0\nfor it.MoveNext() {\n\tr = r*16 + it.Current()\n\tif k < 2 {\n\t\tk++\n\t\tst.more++\n\t\tst.v = b + k\n\t}\n}\nreturn r"),
    ("deferred_literal_receiver_evaluated_late", "first := &pt@{a, 1}\ncur := first\nfunc() {\n\tdefer func() int { return cur.Add(7) }()\n\tcur = &pt@{b, 2}\n}()\nreturn (first.x << 8) ^ cur.x"),
    ("deferred_literal_callee_evaluated_late", "r := 0\nh := func() int { r += 1; return r }\nfunc() {\n\tdefer func() int { return h() }()\n\th = func() int { r += 100; return r }\n}()\nreturn r + a"),
    ("immediate_literal_call", "v := func() int { return dbl@(a) }()\nw := func() int { return fnv@(b) }()\nreturn (v << 4) ^ w"),
    ("native_range_array_by_value_mutated", "arr := [4]int{a, b, 1, 2}\nfor i, v := range arr {\n\tarr[(i+1)&3] += v\n}\nreturn arr[0] ^ (arr[1] << 1) ^ (arr[2] << 2) ^ (arr[3] << 3)"),
    ("native_range_var_captured", "var fs []func() int\nfor i, v := range []int{a, b, a + b} {\n\tfs = append(fs, func() int { return v + i })\n}\nr := 0\nfor _, f := range fs {\n\tr = r*16 + f()\n}\nreturn r"),
    ("native_range_string_map_chan", "r := 0\nfor i, c := range \"héé\" {\n\tr += i*int(c)\n}\nm := map[int]int{1: a}\nfor k, v := range m {\n\tr ^= k + v\n\tm[1] = b\n}\nch := make(chan int, 2)\nch <- a\nch <- b\nclose(ch)\nfor v := range ch {\n\tr = r*2 + v + len(ch)\n}\nreturn r"),
    ("labelled_break_out_of_condless_loop", "r := 0\nL:\n\tfor {\n\t\tswitch {\n\t\tcase r > a&3:\n\t\t\tbreak L\n\t\t}\n\t\tr++\n\t}\n\tr += 100\n\tif g1 {\n\t\tr += b\n\t}\n\treturn r"),
    ("labelled_continue_nested_loops", "r := 0\nouter:\n\tfor i := 0; i < 3; i++ {\n\t\tfor j := 0; ; j++ {\n\t\t\tif j > i {\n\t\t\t\tcontinue outer\n\t\t\t}\n\t\t\tr += j + a\n\t\t}\n\t}\n\tr ^= b\n\treturn r"),
    ("closure_capture", "s := 0\nadd := func(d int) { s += d }\nget := func() int { return s }\nadd(a)\nr := get()\nadd(b)\nreturn (r << 4) ^ get()"),
    ("global_state", "cnt@ += a\nr := cnt@\ncnt@ = 0\nreturn r + k@"),
    ("eta_method_expr", "p := pt@{a, b}\nf := func(q pt@) int { return q.Sum() }\nreturn f(p)"),
    ("eta_variadic_like", "mx := func(x, y int) int { return max@(x, y) }\nreturn mx(a, b)"),
    ("defer_recover", "r := 0\nfunc() {\n\tdefer func() {\n\t\tif e := recover(); e != nil {\n\t\t\tr = 99\n\t\t}\n\t}()\n\tr = tbl@[a&7]\n}()\nreturn r"),
    ("range_native", "m := map[int]int{1: a, 2: b}\nr := 0\nfor _, k := range []int{1, 2} {\n\tr = (r << 3) ^ m[k]\n}\nfor i := range \"héllo\" {\n\tr += i\n}\nreturn r"),
]

C13_EXTRA = """func max@(x, y int) int {
	if x > y {
		return x
	}
	return y
}

func vcount@(xs ...any) int { return len(xs) }

func catch@() any { return recover() }
"""

# hand-written combinator terms in a processed file (the optimiser sees them like generated ones)
C13_SEQ = """type stage@ struct{ v, more int }

func (s *stage@) rest() SEQPKG.Seq[int] {
	if s.more == 0 {
		return SEQPKG.Normal[int]()
	}
	s.more--
	return SEQPKG.Bind[int](s.v, func() SEQPKG.Seq[int] { return s.rest() })
}
"""


# go >= 1.22 sources: per-iteration loop variables in code the compiler must leave alone
C13_BODIES_22 = [
    ("loopvar_plain_for", "var fs []func() int\nfor i := 0; i < 3; i++ {\n\tfs = append(fs, func() int { return i + a })\n}\nr := b\nfor _, f := range fs {\n\tr = r*16 + f()\n}\nreturn r"),
    ("loopvar_plain_range", "var fs []func() int\nfor i, v := range tbl@ {\n\tfs = append(fs, func() int { return i*8 + v + a })\n}\nr := b\nfor _, f := range fs {\n\tr = r*16 + f()\n}\nreturn r"),
    ("loopvar_closure_for", "mk := func(m int) (fs []func() int) {\n\tfor i := 0; i < m; i++ {\n\t\tfs = append(fs, func() int { i += b; return i })\n\t}\n\treturn\n}\nr := a\nfor _, f := range mk(3) {\n\tr = r*16 + f()\n}\nreturn r"),
]


def c13_programs(bodies=None):
    progs = []
    for name, body in (bodies or C13_BODIES):
        pid = "b_%s" % name
        text = C13_COMMON + C13_EXTRA + (C13_SEQ if "SEQPKG." in body else "") + "\nfunc B@(a, b int, g1 bool) int {\n" + indent(body, 1) + "\n}\n"
        driver = """func Drive_G@() {
	a, b := rt.NondetInt(1), rt.NondetInt(2)
	g1 := rt.NondetBool(4)
	rt.Emit(rt.RESULT, B@(a, b, g1))
	rt.Emit(rt.RESULT, B@(b, a, !g1))
	rt.Emit(rt.RESULT, fnv@(a)+k@+len(tbl@))
	rt.Emit(rt.END, 0)
}"""
        # a generator in the same file so that the file is processed; it also calls the bystander
        p = Program(pid, [("yield", "a"), ("yield", "dbl@(b)")], helpers="", family="bys", tags={"bystander:" + name})
        p.driver = (text + "\n" + driver).replace("@", pid)
        p.body = [("yield", "a"), ("yield", "dbl%s(b)" % pid)]
        progs.append(p)
    return progs


# ---------------------------------------------------------------------------------------------
# C12: unsupported constructs injected into supported programs

def c12_injections():
    """(name, stmts, tags) - each a list of statements to splice at one position"""
    Y = lambda e: ("yield", e)
    I = []
    I.append(("goto", [("if", "g3", [("raw", "goto Lend")], None), Y("a + 901"), ("raw", "Lend:\n\trt.Emit(rt.EFF, 900)")]))
    # the 'skip the rest of this iteration' idiom: a label on the closing brace of a loop body
    I.append(("goto_loop_end_plain", [("raw", "for gi := 0; gi < n + 1; gi++ {\n\tif g3 && gi&1 == 0 {\n\t\tgoto Lnext\n\t}\n\tYield(gi + 1120)\nLnext:\n}"), Y("a + 1121")]))
    I.append(("goto_loop_end_from_inner_loop", [("raw", "for gi := 0; gi < n + 1; gi++ {\n\tfor gj := 0; gj < 2; gj++ {\n\t\tif g3 && (gi+gj)&1 == 0 {\n\t\t\tgoto Lnext2\n\t\t}\n\t\tYield(gi*10 + gj + 1122)\n\t}\n\tYield(gi + 1123)\nLnext2:\n}"), Y("a + 1124")]))
    I.append(("goto_range_end_from_inner_range", [("raw", "for _, gv := range []int{a, b} {\n\tfor _, gw := range []int{1, 2} {\n\t\tif g3 && (gv+gw)&1 == 0 {\n\t\t\tgoto Lnext3\n\t\t}\n\t\trt.Emit(40, gw)\n\t}\n\tYield(gv + 1125)\nLnext3:\n}"), Y("a + 1126")]))
    I.append(("goto_loop_end_from_switch_in_inner_loop", [("raw", "for gi := 0; gi < n + 1; gi++ {\n\tgj := 0\n\tfor gj < 2 {\n\t\tgj++\n\t\tswitch (gi + gj) & 1 {\n\t\tcase 0:\n\t\t\tif g3 {\n\t\t\t\tgoto Lnext4\n\t\t\t}\n\t\t}\n\t\tYield(gi*10 + gj + 1127)\n\t}\n\trt.Emit(rt.EFF, 1128)\nLnext4:\n}"), Y("a + 1129")]))
    I.append(("goto_back", [("decl", "gc", "0"), ("raw", "Ltop:\n\tgc++"), Y("gc + 902"), ("if", "gc < 2 && g3", [("raw", "goto Ltop")], None)]))
    I.append(("labelled_break", [("raw", "Lb:\n\tfor li := 0; li < 3; li++ {\n\t\tfor lj := 0; lj < 2; lj++ {\n\t\t\tif g3 && lj == 1 {\n\t\t\t\tbreak Lb\n\t\t\t}\n\t\t\tYield(li*10 + lj + 903)\n\t\t}\n\t}")]))
    I.append(("labelled_continue", [("raw", "Lc:\n\tfor li := 0; li < 3; li++ {\n\t\tfor lj := 0; lj < 2; lj++ {\n\t\t\tif g3 && lj == 1 {\n\t\t\t\tcontinue Lc\n\t\t\t}\n\t\t\tYield(li*10 + lj + 904)\n\t\t}\n\t}")]))
    I.append(("labelled_continue_same_loop", [("raw", "Lx:\n\tfor li := 0; li < 2; li++ {\n\t\tif g3 && li == 0 {\n\t\t\tcontinue Lx\n\t\t}\n\t\tYield(li + 905)\n\t}")]))
    I.append(("select", [("raw", "sc := make(chan int, 1)\nsc <- a\nselect {\ncase sv := <-sc:\n\tYield(sv + 906)\ndefault:\n\tYield(b + 907)\n}")]))
    I.append(("select_break_in_loop", [("raw", "for si := 0; si < 3; si++ {\n\tsc := make(chan int, 1)\n\tif g3 || si == 1 {\n\t\tsc <- si\n\t}\n\tselect {\n\tcase sv := <-sc:\n\t\tif sv == 1 {\n\t\t\tbreak\n\t\t}\n\t\trt.Emit(40, sv)\n\tdefault:\n\t\trt.Emit(rt.EFF, 970)\n\t}\n\tYield(si + 971)\n}")]))
    I.append(("select_break_toplevel", [("raw", "sc := make(chan int, 1)\nsc <- a\nselect {\ncase sv := <-sc:\n\tif g3 {\n\t\tbreak\n\t}\n\trt.Emit(40, sv)\n}"), Y("a + 972")]))
    I.append(("select_continue_in_loop", [("raw", "for si := 0; si < 3; si++ {\n\tsc := make(chan int, 1)\n\tsc <- si\n\tselect {\n\tcase sv := <-sc:\n\t\tif sv == 1 && g3 {\n\t\t\tcontinue\n\t\t}\n\t}\n\tYield(si + 973)\n}")]))
    I.append(("select_send_default", [("raw", "sc := make(chan int, 1)\nselect {\ncase sc <- a:\n\trt.Emit(rt.EFF, 974)\ndefault:\n\trt.Emit(rt.EFF, 975)\n}\nrt.Emit(40, <-sc)"), Y("a + 976")]))
    I.append(("defer", [("raw", "defer rt.Emit(rt.EFF, 908)"), Y("a + 909")]))
    I.append(("defer_yield", [("raw", "defer Yield(a + 910)"), Y("b + 911")]))
    I.append(("defer_in_if", [("raw", "if g3 {\n\tdefer rt.Emit(rt.EFF, 940)\n}"), Y("a + 941"), ("eff", 942)]))
    I.append(("defer_in_for", [("raw", "for di := 0; di < 2; di++ {\n\tdefer rt.Emit(40, di)\n}"), Y("a + 943"), ("eff", 944)]))
    I.append(("defer_in_block", [("raw", "{\n\tdefer rt.Emit(rt.EFF, 945)\n}"), Y("a + 946"), ("eff", 947)]))
    I.append(("defer_in_switch", [("raw", "switch a & 1 {\ncase 0:\n\tdefer rt.Emit(rt.EFF, 948)\n}"), Y("a + 949"), ("eff", 950)]))
    I.append(("goto_in_block_local", [("raw", "{\n\tgi := 0\nLg:\n\tgi++\n\tif gi < 2 {\n\t\tgoto Lg\n\t}\n\trt.Emit(40, gi)\n}"), Y("a + 951")]))
    I.append(("labelled_in_if_local", [("raw", "if g3 {\nLy:\n\tfor li := 0; li < 3; li++ {\n\t\tfor lj := 0; lj < 2; lj++ {\n\t\t\tif lj == 1 {\n\t\t\t\tcontinue Ly\n\t\t\t}\n\t\t\trt.Emit(40, li*10+lj)\n\t\t}\n\t}\n}"), Y("a + 952")]))
    I.append(("select_in_if_local", [("raw", "if g3 {\n\tsc := make(chan int, 1)\n\tsc <- a\n\tselect {\n\tcase sv := <-sc:\n\t\trt.Emit(40, sv)\n\tdefault:\n\t}\n}"), Y("a + 953")]))
    I.append(("fallthrough", [("raw", "switch a & 1 {\ncase 0:\n\tYield(a + 912)\n\tfallthrough\ncase 1:\n\tYield(b + 913)\n}")]))
    I.append(("fallthrough_trivial_case", [("raw", "switch a & 1 {\ncase 0:\n\trt.Emit(rt.EFF, 914)\n\tfallthrough\ncase 1:\n\tYield(b + 915)\n}")]))
    I.append(("range_ptr_array", [("raw", "pa := [3]int{a, b, a + b}\nfor pi, pv := range &pa {\n\tYield(pv + pi + 916)\n}")]))
    # no copy is made for a range over a pointer to an array: elements written after the loop started are seen
    I.append(("range_ptr_array_write_ahead", [("raw", "pa := [4]int{a, b, a + b, 1}\nfor pi, pv := range &pa {\n\tif pi+1 < len(pa) {\n\t\tpa[pi+1] += pv\n\t}\n\tYield(pv + 1130)\n}")]))
    I.append(("range_ptr_array_var_write_ahead_noyield", [("raw", "pa := [3]int{a, b, 1}\npp := &pa\npt := 0\nfor pi, pv := range pp {\n\tpt = pt*3 + pv\n\tif g3 && pi == 0 {\n\t\tpp[2] = a + 1131\n\t}\n}"), Y("pt + 1132")]))
    I.append(("range_ptr_array_alias_write_between_yields", [("raw", "pa := [3]int{a, b, 1}\nal := pa[:]\nfor _, pv := range &pa {\n\tYield(pv + 1133)\n\tal[2] = b + 1134\n}")]))
    I.append(("range_ptr_array_noyield", [("raw", "pa := [3]int{a, b, a + b}\npt := 0\nfor pi, pv := range &pa {\n\tpt += pv + pi\n}"), Y("pt + 917")]))
    I.append(("yield_in_if_init", [("raw", "if Yield(a + 918); g3 {\n\tYield(b + 919)\n}")]))
    I.append(("yield_in_if_init_trivial_body", [("raw", "if Yield(a + 920); g3 {\n\trt.Emit(rt.EFF, 921)\n}")]))
    I.append(("yield_in_elseif_init", [("raw", "if g3 {\n\trt.Emit(rt.EFF, 960)\n} else if Yield(a + 961); g2 {\n\tYield(b + 962)\n}")]))
    I.append(("yield_in_elseif_init_after_yielding_if", [("raw", "if g3 {\n\tYield(a + 963)\n} else if Yield(a + 964); g2 {\n\trt.Emit(rt.EFF, 965)\n} else {\n\tYield(b + 966)\n}")]))
    I.append(("yield_in_nested_else_if_init", [("raw", "if g3 {\n\trt.Emit(rt.EFF, 967)\n} else {\n\tif Yield(a + 968); g2 {\n\t\tYield(b + 969)\n\t}\n}")]))
    I.append(("yield_in_switch_init", [("raw", "switch Yield(a + 922); {\ncase g3:\n\tYield(b + 923)\n}")]))
    I.append(("go_yield", [("raw", "go Yield(a + 924)"), Y("b + 925")]))
    I.append(("yield_in_case_expr_call", [("raw", "switch {\ncase func() bool { rt.Emit(rt.EFF, 926); return g3 }():\n\tYield(a + 927)\n}")]))
    I.append(("ctl_closure_with_defer_in_native_loop_then_break", [("raw", "lt := 0\nfor li := 0; li < 4; li++ {\n\tcf := func() int {\n\t\tdefer func() {}()\n\t\treturn li\n\t}\n\tif cf() > 1 && g3 {\n\t\tbreak\n\t}\n\tif li == 0 {\n\t\tcontinue\n\t}\n\tlt += cf()\n}"), Y("lt + 1005")]))
    I.append(("ctl_closure_with_labelled_loop_in_native_switch_then_break", [("raw", "lw := 0\nswitch a & 1 {\ncase 0:\n\tcw := func() int {\n\t\tt := 0\n\tLq:\n\t\tfor x := 0; x < 3; x++ {\n\t\t\tfor y := 0; y < 3; y++ {\n\t\t\t\tif y > x {\n\t\t\t\t\tcontinue Lq\n\t\t\t\t}\n\t\t\t\tt++\n\t\t\t}\n\t\t}\n\t\treturn t\n\t}\n\tif g3 {\n\t\tbreak\n\t}\n\tlw = cw()\n}"), Y("lw + 1006")]))
    I.append(("labelled_cond_loop_break_in_switch", [("raw", "lq := 0\nLs:\n\tfor lq < 6 {\n\t\tlq++\n\t\tswitch {\n\t\tcase lq == 3 && g3:\n\t\t\tbreak Ls\n\t\tcase lq == 5:\n\t\t\tcontinue Ls\n\t\t}\n\t\tYield(lq + 1020)\n\t}"), Y("lq + 1021")]))
    I.append(("labelled_native_loop_break_in_switch", [("raw", "lr, lt := 0, 0\nLn:\n\tfor lr < 6 {\n\t\tlr++\n\t\tswitch lr {\n\t\tcase 4:\n\t\t\tbreak Ln\n\t\t}\n\t\tlt += lr\n\t}"), Y("lt + 1022")]))
    I.append(("fallthrough_into_middle_default", [("raw", "switch a & 3 {\ncase 0:\n\trt.Emit(rt.EFF, 1010)\n\tfallthrough\ndefault:\n\tYield(a + 1011)\ncase 1:\n\tYield(b + 1012)\n}")]))
    I.append(("fallthrough_chain_middle_default", [("raw", "switch a & 3 {\ncase 0:\n\trt.Emit(rt.EFF, 1013)\n\tfallthrough\ndefault:\n\trt.Emit(rt.EFF, 1014)\n\tfallthrough\ncase 1:\n\tYield(b + 1015)\ncase 2:\n\tYield(a + 1016)\n}")]))
    I.append(("fallthrough_after_yielding_if", [("raw", "switch a & 1 {\ncase 1:\n\tif g3 {\n\t\tYield(a + 996)\n\t}\n\tfallthrough\ncase 0:\n\tYield(b + 997)\n}")]))
    I.append(("fallthrough_after_yielding_switch", [("raw", "switch a & 1 {\ncase 1:\n\tswitch b & 1 {\n\tcase 0:\n\t\tYield(a + 998)\n\t}\n\tfallthrough\ncase 0:\n\tYield(b + 999)\n}")]))
    # a yielding clause that ends in fallthrough and declares a name the next clause reads from outside
    I.append(("fallthrough_shadowing_clause", [("raw", "fx := b\nswitch a & 1 {\ncase 1:\n\tfx := a + 1100\n\tYield(fx)\n\tfallthrough\ncase 0:\n\tYield(fx + 1101)\n}")]))
    # the clause fallen into has a loop / switch with a non-':=' init, and is also entered directly
    I.append(("fallthrough_into_init_loop", [("raw", "fi := 0\nswitch a & 1 {\ncase 1:\n\tYield(a + 1102)\n\tfallthrough\ncase 0:\n\tfor fi = 5; fi < 7; fi++ {\n\t\tYield(fi + 1103)\n\t}\n}\nYield(fi + 1104)")]))
    I.append(("fallthrough_into_init_switch", [("raw", "fi := 0\nswitch a & 1 {\ncase 1:\n\tYield(a + 1105)\n\tfallthrough\ncase 0:\n\tswitch fi = b & 1; fi {\n\tcase 0:\n\t\tYield(fi + 1106)\n\tdefault:\n\t\tYield(fi + 1107)\n\t}\n}\nYield(fi + 1108)")]))
    I.append(("fallthrough_chain_yielding", [("raw", "fx := b\nswitch a & 3 {\ncase 1:\n\tYield(a + 1109)\n\tfallthrough\ncase 0:\n\tfx := a + 1110\n\tYield(fx)\n\tfallthrough\ndefault:\n\tYield(fx + 1111)\n}")]))
    I.append(("fallthrough_after_yielding_loop", [("raw", "switch a & 1 {\ncase 1:\n\tfor fi := 0; fi < 2; fi++ {\n\t\tYield(fi + 1000)\n\t}\n\tfallthrough\ncase 0:\n\tYield(b + 1001)\n}")]))
    I.append(("yield_in_wrong_signature_literal", [("raw", "emit := func(v int) { Yield(v) }\nemit(a + 993)"), Y("b + 994")]))
    I.append(("yield_in_wrong_signature_literal_result", [("raw", "emit2 := func(v int) int {\n\tYield(v)\n\treturn v + 1\n}"), Y("emit2(a) + 995")]))
    I.append(("paren_yield", [("raw", "(Yield(a + 990))"), Y("b + 991")]))
    I.append(("paren_yieldfrom", [("raw", "(YieldFrom(H2(a)))"), Y("b + 992")]))
    I.append(("yield_in_closure_called", [("raw", "cf := func() int { return a + 928 }"), Y("cf()")]))
    # negative controls: the construct inside a nested non-generator closure
    I.append(("ctl_defer_in_closure", [("raw", "func() {\n\tdefer rt.Emit(rt.EFF, 930)\n\trt.Emit(rt.EFF, 931)\n}()"), Y("a + 932")]))
    I.append(("ctl_goto_in_closure", [("raw", "func() {\n\tci := 0\nLq:\n\tci++\n\tif ci < 2 {\n\t\tgoto Lq\n\t}\n\trt.Emit(40, ci)\n}()"), Y("a + 933")]))
    I.append(("ctl_labelled_in_closure", [("raw", "func() {\nLz:\n\tfor ci := 0; ci < 3; ci++ {\n\t\tfor cj := 0; cj < 3; cj++ {\n\t\t\tif cj == 1 {\n\t\t\t\tcontinue Lz\n\t\t\t}\n\t\t\tif ci == 2 {\n\t\t\t\tbreak Lz\n\t\t\t}\n\t\t\trt.Emit(40, ci*10+cj)\n\t\t}\n\t}\n}()"), Y("a + 934")]))
    I.append(("ctl_select_in_closure", [("raw", "cr := func() int {\n\tsc := make(chan int, 1)\n\tsc <- a\n\tselect {\n\tcase sv := <-sc:\n\t\treturn sv\n\tdefault:\n\t\treturn b\n\t}\n}()"), Y("cr + 935")]))
    I.append(("ctl_fallthrough_in_closure", [("raw", "cr := func() int {\n\tr := 0\n\tswitch a & 1 {\n\tcase 0:\n\t\tr += 1\n\t\tfallthrough\n\tcase 1:\n\t\tr += 2\n\t}\n\treturn r\n}()"), Y("cr + 936")]))
    I.append(("ctl_range_ptr_array_in_closure", [("raw", "cr := func() int {\n\tpa := [3]int{a, b, 1}\n\tr := 0\n\tfor i, v := range &pa {\n\t\tr += v + i\n\t}\n\treturn r\n}()"), Y("cr + 937")]))
    return I


C12_STANDALONE = [
    # whole generator functions (not injected): type-parameter range, wrong signatures
    ("range_type_param", """func GT@[S ~[]int](s S) (_ Iter[int]) {
	for i, v := range s {
		Yield(v + i)
	}
	return
}

func G@(a, b, n int, g1, g2, g3 bool) (_ Iter[int]) {
	YieldFrom(GT@([]int{a, b, a + b}))
	return
}
"""),
    ("range_type_param_after_supported_range", """func GT@[S ~[]int](s S, xs []int) (_ Iter[int]) {
	for _, x := range xs {
		Yield(x + 1)
	}
	for i, v := range s {
		Yield(v + i)
	}
	return
}

func G@(a, b, n int, g1, g2, g3 bool) (_ Iter[int]) {
	YieldFrom(GT@([]int{a, b, a + b}, []int{b}))
	return
}
"""),
    ("range_type_param_around_supported_range", """func GT@[S ~[][]int](rows S) (_ Iter[int]) {
	for _, row := range rows {
		Yield(-1)
		for _, v := range row {
			Yield(v)
		}
	}
	return
}

func G@(a, b, n int, g1, g2, g3 bool) (_ Iter[int]) {
	YieldFrom(GT@([][]int{{a, b}, {a + b}}))
	return
}
"""),
    ("range_type_param_map_after_string_range", """func GT@[M ~map[int]int](m M, s string) (_ Iter[int]) {
	t := 0
	for _, c := range s {
		t += int(c)
	}
	Yield(t)
	for k, v := range m {
		Yield(k*100 + v)
	}
	return
}

func G@(a, b, n int, g1, g2, g3 bool) (_ Iter[int]) {
	YieldFrom(GT@(map[int]int{1: a}, "ab"))
	return
}
"""),
    ("defer_after_last_yield_in_loop", """func G@(a, b, n int, g1, g2, g3 bool) (_ Iter[int]) {
	for i := 0; i < n; i++ {
		Yield(a + i)
		defer rt.Emit(40, i)
	}
	rt.Emit(rt.EFF, 930)
	return
}
"""),
    ("defer_after_last_yield_in_if", """func G@(a, b, n int, g1, g2, g3 bool) (_ Iter[int]) {
	Yield(a)
	if g3 {
		Yield(b)
		defer rt.Emit(rt.EFF, 931)
	}
	rt.Emit(rt.EFF, 932)
	return
}
"""),
    ("defer_after_last_yield_in_case", """func G@(a, b, n int, g1, g2, g3 bool) (_ Iter[int]) {
	switch a & 1 {
	case 0:
		Yield(b)
		defer rt.Emit(rt.EFF, 933)
	default:
		rt.Emit(rt.EFF, 934)
	}
	rt.Emit(rt.EFF, 935)
	return
}
"""),
    ("defer_after_last_yield_toplevel", """func G@(a, b, n int, g1, g2, g3 bool) (_ Iter[int]) {
	Yield(a)
	defer rt.Emit(rt.EFF, 936)
	if g3 {
		rt.Emit(rt.EFF, 937)
	}
	return
}
"""),
    ("wrong_signature_two_results", """func GW@(a int) (Iter[int], error) {
	Yield(a)
	return nil, nil
}

func G@(a, b, n int, g1, g2, g3 bool) (_ Iter[int]) {
	it, _ := GW@(a)
	YieldFrom(it)
	return
}
"""),
    ("wrong_signature_no_iter", """func GW@(a int) int {
	Yield(a)
	return a
}

func G@(a, b, n int, g1, g2, g3 bool) (_ Iter[int]) {
	Yield(GW@(a))
	return
}
"""),
]


def inject_at(body, inj, rng):
    """splice the injected statements at a random top-level or nested list position that is not
    after a terminating jump"""
    positions = []

    def collect(lst, depth):
        for i in range(len(lst) + 1):
            if i == 0 or lst[i - 1][0] not in ("break", "continue", "return"):
                positions.append((lst, i, depth))
        for s in lst:
            k = s[0]
            if k == "block":
                collect(s[1], depth + 1)
            elif k == "if":
                collect(s[2], depth + 1)
                if s[3] is not None:
                    collect(s[3], depth + 1)
            elif k == "for":
                collect(s[4], depth + 1)

    collect(body, 0)
    lst, i, _ = rng.choice(positions)
    for j, st in enumerate(inj):
        lst.insert(i + j, st)
    return body


# ---------------------------------------------------------------------------------------------
# C14: interleaving drivers


IL_HELPERS = """func stepI@(it Iter[int]) func() (bool, int) {
	return func() (bool, int) {
		if it.MoveNext() {
			return true, it.Current()
		}
		return false, 0
	}
}

func stepS@(it Iter[string]) func() (bool, int) {
	return func() (bool, int) {
		if it.MoveNext() {
			return true, len(it.Current()) + 1000
		}
		return false, 0
	}
}

// a generator with another element type: iterators of different types share no state either
func GS@(a, n int) (_ Iter[string]) {
	for i := 0; i < n+2; i++ {
		rt.Emit(rt.EFF, 770+i)
		if (a+i)&1 == 0 {
			Yield("ab")
		} else {
			Yield("")
		}
	}
	return
}
"""


def il_driver(name, k, m, makers, suffix=""):
    """k iterators (makers[i] = Go expression creating the step function of iterator i, see
    IL_HELPERS), each advanced exactly m times: first alone (logs 0..k-1), then fresh instances
    under a nondeterministic schedule (logs 10..10+k-1); per-iterator logs must be equal and heap
    footprints disjoint."""
    k = len(makers)
    mk = "\n".join("\t\tcase %d:\n\t\t\treturn %s" % (i, e) for i, e in enumerate(makers))
    return """func DriveIL%(suffix)s_%(name)s() {
	a, b, n := rt.NondetInt(1), rt.NondetInt(2), rt.NondetInt(3)
	g1, g2, g3 := rt.NondetBool(4), rt.NondetBool(5), rt.NondetBool(6)
	_, _, _, _, _ = a, b, g1, g2, g3
	rt.Assume(n >= -1 && n <= 2)
	mk := func(i int) func() (bool, int) {
		switch i {
%(mk)s
		}
		return nil
	}
	step := func(next func() (bool, int)) {
		if ok, v := next(); ok {
			rt.Emit(rt.YIELD, v)
		} else {
			rt.Emit(rt.ADV_END, 0)
		}
	}
	for i := 0; i < %(k)d; i++ {
		rt.SetLog(i)
		it := mk(i)
		for s := 0; s < %(m)d; s++ {
			step(it)
		}
	}
	var its [%(k)d]func() (bool, int)
	var left [%(k)d]int
	for i := 0; i < %(k)d; i++ {
		rt.SetLog(10 + i)
		rt.Actor(i + 1)
		its[i] = mk(i)
		rt.Actor(0)
		left[i] = %(m)d
	}
	for t := 0; t < %(k)d*%(m)d; t++ {
		// pick among the iterators that still have steps left
		var cand [%(k)d]int
		nc := 0
		for i := 0; i < %(k)d; i++ {
			if left[i] > 0 {
				cand[nc] = i
				nc++
			}
		}
		i := cand[0]
		if nc > 1 {
			i = cand[rt.Choose(7, nc)]
		}
		it := its[i]
		rt.SetLog(10 + i)
		rt.Actor(i + 1)
		step(it)
		rt.Actor(0)
		left[i]--
	}
	rt.SetLog(0)
	for i := 0; i < %(k)d; i++ {
		rt.AssertSameLogs(i, 10+i, 1400+i)
	}
	rt.AssertDisjointFootprints(1410)
}""" % {"name": name, "k": k, "m": m, "mk": mk, "suffix": suffix}


# ---------------------------------------------------------------------------------------------
# expression forms: a yield whose argument is the only thing in its delayed block, built from a
# variable that changes between construction of the enclosing combinator and execution

EXPR_HELPERS = """type pt@ struct{ x, y int }

func idf@(x int) int { return x }

func efn@(x int) int {
	rt.Emit(rt.EFF, 960+x)
	return x * 3
}
"""

INT_FORMS = [
    ("var", "{v}"), ("neg", "-{v}"), ("pos", "+{v}"), ("compl", "^{v}"), ("paren", "({v})"), ("plus1", "{v} + 1"), ("negplus", "-{v} + 1"),
    ("times2", "{v} * 2"), ("shift", "{v} << 1"), ("conv", "int(int32({v}))"), ("call", "idf@({v})"), ("index", "[]int{{7, 8}}[{v}&1]"),
    ("slicelit", "[]int{{{v}, 1}}[0]"), ("structlit_field", "pt@{{{v}, 1}}.x"), ("funclit", "func() int {{ return {v} }}()"),
    ("lenlit", "len([]int{{{v}}}) + {v}"), ("negcall", "-idf@({v})"), ("notnot", "map[bool]int{{true: 1, false: 0}}[!({v} > 0)] + {v}"),
    ("deref", "*(&{v})"), ("eff", "rt.Eff(950, {v})"), ("negeff", "-rt.Eff(951, {v})"),
    # literal-only arguments: the value does not change, but WHEN the call runs is observable
    ("call_lit", "efn@(7)"), ("call_neglit", "efn@(-1)"), ("conv_call_lit", "int(int32(efn@(2)))"), ("paren_call_lit", "(efn@(3))"),
    ("call_lit_plus_var", "efn@(4) + {v}"), ("lit", "7"), ("neglit", "-7"), ("conv_lit", "int(int32(5))"),
]

ANY_FORMS = [
    ("structlit", "pt@{{{v}, 2}}"), ("structlit_keyed", "pt@{{x: {v}, y: {v} + 1}}"), ("structlit_eff", "pt@{{rt.Eff(952, {v}), rt.Eff(953, b)}}"),
    ("arraylit", "[2]int{{{v}, 3}}"), ("slicelit", "[]int{{{v}, {v} + 1}}"), ("nested", "pt@{{idf@({v}), -{v}}}"), ("anyint", "{v}"), ("negany", "-{v}"),
]


def funcvalue_programs():
    """generators whose element type is a function type: the consumer calls what it gets, so the
    moment at which a method value / function value was taken is observable"""
    T = "type fcnt@ struct{ v int }\n\nfunc (c fcnt@) Get() int  { return c.v }\nfunc (c *fcnt@) Inc() int { c.v++; return c.v }\nfunc fdecl@() int          { return 77 }\n"
    bodies = [
        ("method_value_in_loop", [("raw", "c := fcnt@{v: a}"), ("for", ("decl", "i", "0"), "i < n", ("inc", "i"), [("yield", "c.Get"), ("raw", "c.v += b")]), ("yield", "c.Get")]),
        ("method_value_after_yield", [("raw", "c := fcnt@{v: a}"), ("yield", "fdecl@"), ("raw", "c.v = b"), ("yield", "c.Get"), ("raw", "c.v++"), ("yield", "c.Get")]),
        ("pointer_method_value_reassigned", [("raw", "p := &fcnt@{v: a}"), ("for", ("decl", "i", "0"), "i < n", ("inc", "i"), [("yield", "p.Inc"), ("raw", "p = &fcnt@{v: b + i}")]), ("yield", "p.Inc")]),
        ("function_variable_reassigned", [("raw", "f := func() int { return a }"), ("for", ("decl", "i", "0"), "i < n", ("inc", "i"), [("yield", "f"), ("raw", "j := i\nf = func() int { return b + j }")]), ("yield", "f")]),
        ("receiver_expression_with_effect", [("raw", "mk := func(v int) fcnt@ {\n\trt.Emit(rt.EFF, 88)\n\treturn fcnt@{v: v}\n}"), ("eff", 1), ("yield", "fdecl@"), ("eff", 2), ("yield", "mk(a).Get"), ("eff", 3)]),
    ]
    progs = []
    for name, body in bodies:
        pid = "fv_" + name
        body = [tuple(x.replace("@", pid) if isinstance(x, str) else x for x in st) if st[0] != "for" else
                ("for", st[1], st[2], st[3], [tuple(x.replace("@", pid) if isinstance(x, str) else x for x in b) for b in st[4]]) for st in body]
        progs.append(Program(pid, body, helpers=T.replace("@", pid), named_result=True, family="fnv", ret_type="func() int", tags={"funcvalue:" + name}))
    return progs


def unit_programs():
    """generators whose element type has a single value (struct{}): the yielded expression must
    still be evaluated, once, when the element is produced"""
    H = "func tick@(id int) struct{} {\n\trt.Emit(rt.EFF, id)\n\treturn struct{}{}\n}\n\ntype unit@ struct{}\n"
    bodies = [
        ("call_operands", [("yield", "tick@(1)"), ("eff", 2), ("for", ("decl", "i", "0"), "i < n", ("inc", "i"), [("yield", "tick@(10 + i)")]), ("yield", "struct{}{}")]),
        ("receive_operand", [("raw", "ch := make(chan struct{}, 2)\nch <- struct{}{}\nch <- struct{}{}"), ("yield", "<-ch"), ("raw", "rt.Emit(40, len(ch))"), ("if", "g1", [("yield", "<-ch"), ("raw", "rt.Emit(40, len(ch))")], None), ("yield", "tick@(3)")]),
        ("variable_and_index", [("raw", "us := []struct{}{{}, {}}\nidx := a & 3"), ("yield", "us[0]"), ("if", "g2", [("yield", "us[idx]")], None), ("yield", "tick@(4)")]),
    ]
    progs = []
    for name, body in bodies:
        pid = "un_" + name
        body = [tuple(x.replace("@", pid) if isinstance(x, str) else x for x in st) if st[0] not in ("for", "if") else
                ((st[0], st[1], st[2], st[3], [tuple(x.replace("@", pid) if isinstance(x, str) else x for x in b) for b in st[4]]) if st[0] == "for" else
                 ("if", st[1], [tuple(x.replace("@", pid) if isinstance(x, str) else x for x in b) for b in st[2]], st[3])) for st in body]
        progs.append(Program(pid, body, helpers=H.replace("@", pid), named_result=True, family="unit", ret_type="struct{}", tags={"unit:" + name}))
    return progs


def exprform_programs():
    progs = []
    for ret, forms in (("int", INT_FORMS), ("any", ANY_FORMS)):
        for name, form in forms:
            def E(v):
                return form.format(v=v)
            shapes = {
                # the yield is the whole loop body; i changes between iterations
                "loop": [("for", ("decl", "i", "0"), "i < n", ("inc", "i"), [("yield", E("i"))])],
                # while-style loop with the yield first and the update after
                "loop_upd": [("decl", "w", "a"), ("decl", "c", "0"), ("for", None, "c < n", None, [("yield", E("w")), ("assign", "w", "w + 3"), ("inc", "c")])],
                # statement right after a loop (second half of a Combine)
                "after_loop": [("decl", "s", "a"), ("for", ("decl", "i", "0"), "i < n", ("inc", "i"), [("assign", "s", "s + i + 1"), ("yield", "i")]), ("yield", E("s"))],
                # first statement of the body reading a variable that a previous yield's continuation updates
                "seq": [("decl", "x", "a"), ("yield", E("x")), ("assign", "x", "b"), ("yield", E("x")), ("if", "g1", [("assign", "x", "x + 5")], None), ("yield", E("x"))],
                # in both arms of an if after a yielding if
                "after_if": [("decl", "x", "a"), ("if", "g1", [("yield", "1"), ("assign", "x", "b")], None), ("yield", E("x"))],
                # in a switch case after an update
                "in_switch": [("decl", "x", "a"), ("yield", "0"), ("assign", "x", "x + b"), ("switch", None, "n", [("1", [("yield", E("x"))])], [("yield", E("x") if ret == "any" else E("x") + " + 1")])],
            }
            for sname, body in shapes.items():
                # literal-only forms do not mention the variable: keep it used
                nb = []
                for st in body:
                    nb.append(st)
                    if st[0] == "decl" and st[1] in ("x", "w", "s"):
                        nb.append(("assign", "_", st[1]))
                body = nb
                if ret == "any":
                    body = [tuple(("yield", y[1] if not y[1].isdigit() and y[1] not in ("i",) else y[1]) if y[0] == "yield" else y for y in st) if False else st for st in body]
                pid = "x_%s_%s_%s" % (ret, name, sname)
                p = Program(pid, body, helpers=EXPR_HELPERS, family="xf" + ret, ret_type=ret, tags={"exprform:" + name, "shape:" + sname})
                progs.append(p)
    for p in progs:
        p.helpers = p.helpers.replace("@", p.pid)
        p.body = subst_at(p.body, p.pid)
    return progs


def subst_at(x, pid):
    if isinstance(x, str):
        return x.replace("@", pid)
    if isinstance(x, tuple):
        return tuple(subst_at(y, pid) for y in x)
    if isinstance(x, list):
        return [subst_at(y, pid) for y in x]
    return x


# ---------------------------------------------------------------------------------------------
# C17 (compiled part): loops with rt.Probe in the condition / body, delegation chains

C17_PROGRAMS = [
    ("filter_continue", "func G@(mask, n int) (_ Iter[int]) {\n\tfor i := 0; rt.Probe(i < n); i++ {\n\t\tif (mask>>uint(i))&1 == 1 {\n\t\t\tcontinue\n\t\t}\n\t\tYield(i)\n\t}\n\treturn\n}\n"),
    ("filter_if", "func G@(mask, n int) (_ Iter[int]) {\n\tfor i := 0; rt.Probe(i < n); i++ {\n\t\tif (mask>>uint(i))&1 == 0 {\n\t\t\tYield(i)\n\t\t}\n\t}\n\treturn\n}\n"),
    ("while_continue", "func G@(mask, n int) (_ Iter[int]) {\n\ti := 0\n\tfor rt.Probe(i < n) {\n\t\ti++\n\t\tif (mask>>uint(i))&1 == 1 {\n\t\t\tcontinue\n\t\t}\n\t\tYield(i)\n\t}\n\treturn\n}\n"),
    ("loop_break", "func G@(mask, n int) (_ Iter[int]) {\n\ti := 0\n\tfor {\n\t\trt.Probe(true)\n\t\ti++\n\t\tif i > n {\n\t\t\tbreak\n\t\t}\n\t\tif (mask>>uint(i))&1 == 1 {\n\t\t\tcontinue\n\t\t}\n\t\tYield(i)\n\t}\n\treturn\n}\n"),
    ("range_slice", "func G@(mask, n int) (_ Iter[int]) {\n\txs := []int{0, 1, 2, 3, 4, 5, 6, 7, 8, 9, 10, 11, 12, 13, 14, 15}\n\tfor i, x := range xs[:n] {\n\t\trt.Probe(true)\n\t\tif (mask>>uint(i))&1 == 1 {\n\t\t\tcontinue\n\t\t}\n\t\tYield(x)\n\t}\n\treturn\n}\n"),
    ("switch_in_loop", "func G@(mask, n int) (_ Iter[int]) {\n\tfor i := 0; rt.Probe(i < n); i++ {\n\t\tswitch (mask >> uint(i)) & 1 {\n\t\tcase 0:\n\t\t\tYield(i)\n\t\tdefault:\n\t\t}\n\t\trt.Emit(rt.EFF, i)\n\t}\n\treturn\n}\n"),
    ("yield_post", "func G@(mask, n int) (_ Iter[int]) {\n\tfor i := 0; rt.Probe(i < n); i++ {\n\t\tif (mask>>uint(i))&1 == 0 {\n\t\t\tYield(i)\n\t\t}\n\t\trt.Emit(rt.EFF, i)\n\t}\n\treturn\n}\n"),
    ("nested_grep", "func G@(mask, n int) (_ Iter[int]) {\n\tfor r := 0; rt.Probe(r < n); r++ {\n\t\tfor c := 0; c < 2; c++ {\n\t\t\tif (mask>>uint(r))&1 == 0 && c == 1 {\n\t\t\t\tYield(r*2 + c)\n\t\t\t}\n\t\t}\n\t}\n\treturn\n}\n"),
    ("nested_grep_first", "func G@(mask, n int) (_ Iter[int]) {\n\tfor r := 0; rt.Probe(r < n); r++ {\n\t\tfor c := 0; ; c++ {\n\t\t\tif c == 2 || (mask>>uint(r))&1 == 1 {\n\t\t\t\tbreak\n\t\t\t}\n\t\t\tYield(r*2 + c)\n\t\t}\n\t}\n\treturn\n}\n"),
    ("nested_range_in_loop", "func G@(mask, n int) (_ Iter[int]) {\n\tfor r := 0; rt.Probe(r < n); r++ {\n\t\tfor _, x := range []int{1, 2} {\n\t\t\tif (mask>>uint(r))&1 == 1 {\n\t\t\t\tcontinue\n\t\t\t}\n\t\t\tYield(r + x)\n\t\t}\n\t}\n\treturn\n}\n"),
    ("nested_initless_inner", "func G@(mask, n int) (_ Iter[int]) {\n\tfor r := 0; rt.Probe(r < n); r++ {\n\t\tc := 0\n\t\tfor c < 2 {\n\t\t\tc++\n\t\t\tif (mask>>uint(r))&1 == 0 && c == 2 {\n\t\t\t\tYield(r*2 + c)\n\t\t\t}\n\t\t}\n\t}\n\treturn\n}\n"),
    ("nested_initless_inner_first", "func G@(mask, n int) (_ Iter[int]) {\n\tr, c := 0, 0\n\tfor rt.Probe(r < n) {\n\t\tfor c < 2 {\n\t\t\tc++\n\t\t\tif (mask>>uint(r))&1 == 0 && c == 1 {\n\t\t\t\tYield(r*2 + c)\n\t\t\t}\n\t\t}\n\t\tc = 0\n\t\tr++\n\t}\n\treturn\n}\n"),
    ("nested_loop_forever_inner", "func G@(mask, n int) (_ Iter[int]) {\n\tfor r := 0; rt.Probe(r < n); r++ {\n\t\tc := 0\n\t\tfor {\n\t\t\tc++\n\t\t\tif c > 2 {\n\t\t\t\tbreak\n\t\t\t}\n\t\t\tif (mask>>uint(r))&1 == 1 {\n\t\t\t\tcontinue\n\t\t\t}\n\t\t\tYield(r*2 + c)\n\t\t}\n\t}\n\treturn\n}\n"),
    ("nested_inner_probe", "func G@(mask, n int) (_ Iter[int]) {\n\tr, c := 0, 0\n\tfor r < n {\n\t\tfor c < 2 {\n\t\t\trt.Probe(true)\n\t\t\tc++\n\t\t\tif (mask>>uint(r))&1 == 0 && c == 1 {\n\t\t\t\tYield(r*2 + c)\n\t\t\t}\n\t\t}\n\t\tc = 0\n\t\tr++\n\t}\n\treturn\n}\n"),
    ("nested_inner_probe_post", "func G@(mask, n int) (_ Iter[int]) {\n\tc := 0\n\tfor r := 0; r < n; r++ {\n\t\tfor ; c < 2; c++ {\n\t\t\trt.Probe(true)\n\t\t\tif (mask>>uint(r))&1 == 0 && c == 0 {\n\t\t\t\tYield(r*2 + c)\n\t\t\t}\n\t\t}\n\t\tc = 0\n\t}\n\treturn\n}\n"),
    # delegating post statements whose delegate is often empty: iterations in which neither body nor post suspends
    ("yieldfrom_post_continue", "func K@(i, mask int) (_ Iter[int]) {\n\tif (mask>>uint(i))&1 == 0 {\n\t\tYield(-i)\n\t}\n\treturn\n}\n\nfunc G@(mask, n int) (_ Iter[int]) {\n\ti := 0\n\tfor ; rt.Probe(i < n); YieldFrom(K@(i, mask)) {\n\t\ti++\n\t\tif (mask>>uint(i))&1 == 1 {\n\t\t\tcontinue\n\t\t}\n\t\trt.Emit(rt.EFF, i)\n\t}\n\treturn\n}\n"),
    ("yieldfrom_post_plain", "func K@(i, mask int) (_ Iter[int]) {\n\tif (mask>>uint(i))&1 == 0 {\n\t\tYield(-i)\n\t}\n\treturn\n}\n\nfunc G@(mask, n int) (_ Iter[int]) {\n\ti := 0\n\tfor ; rt.Probe(i < n); YieldFrom(K@(i, mask)) {\n\t\ti++\n\t\trt.Emit(rt.EFF, i)\n\t}\n\treturn\n}\n"),
    ("yieldfrom_post_switch_continue", "func K@(i, mask int) (_ Iter[int]) {\n\tif (mask>>uint(i))&1 == 0 {\n\t\tYield(-i)\n\t}\n\treturn\n}\n\nfunc G@(mask, n int) (_ Iter[int]) {\n\tfor i := 0; rt.Probe(i < n); YieldFrom(K@(i, mask)) {\n\t\ti++\n\t\tswitch (mask >> uint(i)) & 1 {\n\t\tcase 1:\n\t\t\tcontinue\n\t\t}\n\t\trt.Emit(rt.EFF, i)\n\t}\n\treturn\n}\n"),
    ("delegating_filter", "func H@(mask, n int) (_ Iter[int]) {\n\tfor i := 0; rt.Probe(i < n); i++ {\n\t\tif (mask>>uint(i))&1 == 1 {\n\t\t\tcontinue\n\t\t}\n\t\tYield(i)\n\t}\n\treturn\n}\n\nfunc G@(mask, n int) (_ Iter[int]) {\n\tYieldFrom(H@(mask, n))\n\treturn\n}\n"),
]

C17_DRIVER = """func DriveDepth_G@() {
	mask := rt.NondetInt(1)
	it := G@(mask, %(n)d)
	for k := 0; k < %(n)d+1; k++ {
		rt.SetLog(20 + k)
		ok := it.MoveNext()
		rt.SetLog(0)
		rt.AssertDepths(20+k, 0, 1710+k)
		if !ok {
			break
		}
	}
}
"""

C17_DELEG = """func R@(d, x int) (_ Iter[int]) {
	if d <= 0 {
		rt.Probe(true)
		Yield(x)
		return
	}
	YieldFrom(R@(d-1, x+1))
	return
}

func G@(mask, n int) (_ Iter[int]) {
	YieldFrom(R@(n, mask))
	return
}

func DriveDepth_G@() {
	x := rt.NondetInt(1)
	rt.SetLog(30)
	for d := 0; d <= %(n)d; d++ {
		it := R@(d, x)
		it.MoveNext()
	}
	rt.SetLog(0)
	rt.AssertDepths(30, 1, 1730)
}
"""


def c17_programs(n, dmax):
    progs = []
    for name, text in C17_PROGRAMS:
        pid = "d17_" + name
        p = Program(pid, [("yield", "a")], family="dep", tags={"depth:" + name})
        p.standalone_full = (text + "\n" + C17_DRIVER % {"n": n}).replace("@", pid)
        progs.append(p)
    pid = "d17_delegation"
    p = Program(pid, [("yield", "a")], family="dep", tags={"depth:delegation"})
    p.standalone_full = (C17_DELEG % {"n": dmax}).replace("@", pid)
    progs.append(p)
    return progs


C04_TYPEPARAM = """func gt@[S ~[]int, M ~map[int]int, T ~string](s S, m M, str T, n int, g1 bool) (_ Iter[int]) {
	t := 0
	for i, v := range s {
		if v&1 == 1 {
			continue
		}
		if i > n {
			break
		}
		t += v
	}
	Yield(t)
	for i := 0; i < 2; i++ {
		for _, v := range s {
			if g1 && v > 3 {
				break
			}
			if v&1 == 0 {
				continue
			}
			t += v + i
		}
		Yield(t + i)
	}
	for _, r := range str {
		if r == 'b' {
			break
		}
		t += int(r)
	}
	Yield(t + 1)
	for k := range m {
		if k == 2 {
			continue
		}
		t += k
	}
	Yield(t + 2)
	return
}

func G@(a, b, n int, g1, g2, g3 bool) Iter[int] {
	return gt@([]int{a, b, a + b}, map[int]int{1: a, 2: b}, "abc", n, g1)
}
"""


def c04_typeparam_programs():
    p = Program("tp_ranges", [("yield", "a")], family="rng_typeparam", tags={"range:typeparam", "map-order"})
    p.standalone = C04_TYPEPARAM
    return [p]
