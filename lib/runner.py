import hashlib, json, os, re, shutil, subprocess, sys, tempfile, time

VERIF = os.path.dirname(os.path.dirname(os.path.abspath(__file__)))
REPO = os.environ.get("VERIF_REPO", "/repo")
# -trimpath: the scratch workspace has a fresh name on every run; without it every run adds all its
# packages to the Go build cache under new action ids (the cache grew to 136 GB during this work)
GOENV = dict(os.environ, GOFLAGS="-mod=mod -trimpath", GOPROXY="off", GOSUMDB="off", GOTOOLCHAIN="local")
NCPU = int(os.environ.get("VERIF_JOBS", "16"))

CLAIMED = {}  # id -> plan function (filled by plans.py)


class CheckError(Exception):
    pass


class Ctx:
    def __init__(self, pid, tier, seed):
        self.pid, self.tier, self.seed = pid, tier, seed
        self.t0 = time.time()
        self.scratch = tempfile.mkdtemp(prefix="verif_%s_" % pid, dir=os.environ.get("VERIF_SCRATCH", "/var/tmp"))
        self.ws = os.path.join(self.scratch, "ws")
        self.notes = []
        self.thorough = tier == "thorough"

    def cleanup(self):
        if os.environ.get("VERIF_KEEP"):
            print("scratch kept:", self.scratch)
            return
        shutil.rmtree(self.scratch, ignore_errors=True)

    def q(self, quick, thorough):
        return thorough if self.thorough else quick


def sh(cmd, cwd=None, env=None, timeout=None, check=True):
    p = subprocess.run(cmd, cwd=cwd, env=env or GOENV, stdout=subprocess.PIPE, stderr=subprocess.STDOUT, timeout=timeout, text=True)
    if check and p.returncode != 0:
        raise CheckError("command failed (%d): %s\n%s" % (p.returncode, " ".join(cmd), p.stdout[-4000:]))
    return p


def newer(src_dir, target):
    if not os.path.exists(target):
        return True
    t = os.path.getmtime(target)
    for root, _, files in os.walk(src_dir):
        for f in files:
            if os.path.getmtime(os.path.join(root, f)) > t:
                return True
    return False


def build_engine():
    target = os.path.join(VERIF, "bin", "gocosym")
    if newer(os.path.join(VERIF, "engine"), target):
        os.makedirs(os.path.join(VERIF, "bin"), exist_ok=True)
        sh(["go", "build", "-o", target, "."], cwd=os.path.join(VERIF, "engine"))
    return target


def build_driver(ctx):
    """The compile driver is rebuilt against REPO's working tree on every run (hooks on)."""
    d = os.path.join(ctx.scratch, "driver")
    if os.path.exists(os.path.join(ctx.scratch, "verifdriver")):
        return os.path.join(ctx.scratch, "verifdriver")
    shutil.copytree(os.path.join(VERIF, "driver"), d)
    with open(os.path.join(d, "go.mod"), "w") as f:
        f.write("module verifdriver\n\ngo 1.19\n\nrequire github.com/goghcrow/go-co v0.0.0\n\nreplace github.com/goghcrow/go-co => %s\n" % REPO)
    shutil.copy(os.path.join(REPO, "go.sum"), os.path.join(d, "go.sum"))
    tags = ["-tags", "verif"] if os.path.exists(os.path.join(REPO, "rewriter", "verif_hook.go")) else []
    p = sh(["go", "build"] + tags + ["-o", os.path.join(ctx.scratch, "verifdriver"), "."], cwd=d, check=False)
    if p.returncode != 0:
        raise CheckError("the compiler under /repo does not build:\n" + p.stdout[-3000:])
    return os.path.join(ctx.scratch, "verifdriver")


class SubCtx:
    """a second workspace (other Go language version) inside the same scratch directory"""

    def __init__(self, ctx, name, go_version):
        self.__dict__.update(ctx.__dict__)
        self.ws = os.path.join(ctx.scratch, name)
        make_ws(self, go_version)

    def q(self, quick, thorough):
        return thorough if self.thorough else quick


def make_ws(ctx, go_version="1.20"):
    shutil.copytree(os.path.join(VERIF, "ws"), ctx.ws)
    with open(os.path.join(ctx.ws, "go.mod"), "w") as f:
        f.write("module verifws\n\ngo %s\n\nrequire github.com/goghcrow/go-co v0.0.0\n\nreplace github.com/goghcrow/go-co => %s\n" % (go_version, REPO))
    shutil.copy(os.path.join(REPO, "go.sum"), os.path.join(ctx.ws, "go.sum"))
    # harness packages that are not used by this check must still build (go vet is not run), so
    # nothing else to do here


def run_engine(ctx, args, name="result", timeout=None, selftest=True):
    out = os.path.join(ctx.scratch, name + ".json")
    if selftest:
        # engine sensitivity self-test rides along with every engine run (DESIGN 1.6 iii)
        if "-pair" in args:
            args = ["-pair", "verifws/selftest/src=verifws/selftest/outbad"] + args
        elif "-harness" in args:
            args = ["-harness", "verifws/selftest/h"] + args
            if "-drivers" in args:
                i = args.index("-drivers")
                args[i + 1] = "(%s)|^Drive_SelfTest" % args[i + 1]
    record = None
    if ctx.thorough or os.environ.get("VERIF_SOLVER_DIFF"):
        record = os.path.join(ctx.scratch, name + ".smt2")
        args = args + ["-record", record]
    cmd = [build_engine(), "check", "-ws", ctx.ws, "-out", out, "-j", str(NCPU)] + args
    p = subprocess.run(cmd, env=GOENV, stdout=subprocess.PIPE, stderr=subprocess.STDOUT, text=True, timeout=timeout)
    if not os.path.exists(out):
        raise CheckError("engine produced no result: %s\n%s" % (" ".join(cmd), p.stdout[-4000:]))
    with open(out) as f:
        res = json.load(f)
    res["_stderr"] = p.stdout[-2000:]
    if p.returncode != 0:
        raise CheckError("engine failed:\n" + p.stdout[-4000:])
    if selftest:
        st = [d for d in res["drivers"] if "SelfTest" in d["name"]]
        res["drivers"] = [d for d in res["drivers"] if "SelfTest" not in d["name"]]
        bad = [d for d in st if d["name"].endswith("Drive_SelfTestBad")]
        vac = [d for d in st if d["name"].endswith("Drive_SelfTestVacuous")]
        if not bad or any(d["status"] != "violated" for d in bad):
            raise CheckError("engine self-validation failed: the seeded wrong program was not reported as violated: %s" % [(d["name"], d["status"]) for d in st])
        if any(d["status"] != "undecided" for d in vac):
            raise CheckError("engine self-validation failed: the vacuous driver was not reported as undecided")
        res["selftest"] = [(d["name"], d["status"]) for d in st]
    if record:
        import glob
        allfiles = sorted(glob.glob(record + ".*"), key=os.path.getsize)
        files = allfiles[:SOLVER_DIFF_FILES]
        from concurrent.futures import ThreadPoolExecutor
        with ThreadPoolExecutor(max_workers=max(1, NCPU // 2)) as ex:
            diffs = list(ex.map(lambda f: solver_diff(ctx, f), files))
        res["solver_diff"] = {"transcripts": len(files), "transcripts_recorded": len(allfiles), "per_solver_timeout_s": SOLVER_DIFF_TIMEOUT,
                              "queries_compared": sum(d.get("queries", 0) for d in diffs),
                              "skipped": [d["skipped"] for d in diffs if "skipped" in d][:3],
                              "z3-new": sorted({d.get("z3-new", "-") for d in diffs if "queries" in d and d["queries"]})[:3],
                              "cvc5": sorted({d.get("cvc5", "-") for d in diffs if "queries" in d and d["queries"]})[:3]}
    return res


SOLVER_DIFF_TIMEOUT = 600   # seconds per solver and transcript; a timeout is recorded, not fatal
SOLVER_DIFF_FILES = 8       # transcripts (engine workers) compared per engine run, smallest first


def solver_diff(ctx, transcript, limit_bytes=80 << 20):
    """Re-run the query transcript of engine worker 0 through z3-new 5.1.0 and cvc5 and compare the
    sat/unsat verdict sequences with z3 4.8.12's. Any difference is fatal (exit 2)."""
    size = os.path.getsize(transcript)
    if size > limit_bytes:
        return {"skipped": "transcript of %d bytes exceeds the diff limit" % size}
    pat = re.compile(r"^(sat|unsat|unknown)$", re.M)

    def run(argv, text):
        try:
            p = subprocess.run(argv, input=text, stdout=subprocess.PIPE, stderr=subprocess.STDOUT, text=True, timeout=SOLVER_DIFF_TIMEOUT)
        except subprocess.TimeoutExpired:
            return None
        return pat.findall(p.stdout)

    text = open(transcript).read()
    base = run(["z3", "-in"], text)
    out = {"queries": len(base or []), "bytes": size}
    new = run(["z3-new", "-in"], text)
    ctext = "\n".join(l for l in text.splitlines() if "set-option :timeout" not in l)
    ctext = ctext.replace("(reset)", "(reset)\n(set-option :global-declarations true)\n(set-option :produce-models true)\n(set-logic QF_BV)")
    cv = run(["cvc5", "--incremental", "--lang=smt2"], ctext)
    for nm, o in (("z3-new", new), ("cvc5", cv)):
        if o is None or base is None:
            out[nm] = "timeout"
            continue
        # unknowns (timeouts) may legitimately differ between solvers; definite verdicts must not
        diffs = [i for i, (a, b) in enumerate(zip(base, o)) if a != b and "unknown" not in (a, b)]
        if len(o) != len(base) or diffs:
            raise CheckError("solver diff: %s disagrees with z3 4.8.12 (%d vs %d verdicts, first difference at query %s)" % (nm, len(o), len(base), diffs[:1]))
        out[nm] = "agrees on %d verdicts" % len(o)
    return out


# ------------------------------------------------------------------------------------------------
# native replay


def parse_native_logs(text):
    logs = {}
    m = re.search(r"<<<LOGS\n(.*?)LOGS>>>", text, re.S)
    if not m:
        return None
    for line in m.group(1).splitlines():
        mm = re.match(r"log (\d+):(.*)", line)
        if mm:
            logs[mm.group(1)] = re.findall(r"\((\d+ (?:\"(?:[^\"\\]|\\.)*\"|[^()]|\([^()]*\))*)\)", mm.group(2))
    return logs


def norm_events(evs):
    return [e.strip("()") if e.startswith("(") and e.endswith(")") else e for e in evs]


REPLAY_TMPL = """package %(pkg)s

import (
	"fmt"
	"testing"

	rt "verifws/verifrt"
)

func TestVerifReplay(t *testing.T) {
	cases := []struct {
		name string
		vec  map[string]int64
		run  func()
	}{
%(cases)s
	}
	for _, c := range cases {
		func() {
			rt.Reset()
			rt.NativeFailures = nil
			rt.SetVec(c.vec)
			defer func() {
				r := recover()
				fmt.Printf("CASE %%s\\n<<<LOGS\\n%%sLOGS>>>\\nFAILS %%v\\nPANIC %%v\\nENDCASE\\n", c.name, rt.DumpLogs(), rt.NativeFailures, r)
			}()
			c.run()
		}()
	}
}
"""


def native_replay(ctx, pkg_rel, cases, timeout=600):
    """cases: list of (case_name, driver_func_name, model dict). Runs them natively in package
    ws/<pkg_rel>; returns {case_name: {"logs":{..}, "fails":[..], "panic": str}}."""
    pkgdir = os.path.join(ctx.ws, pkg_rel)
    pkgname = None
    for f in sorted(os.listdir(pkgdir)):
        if f.endswith(".go") and not f.endswith("_test.go"):
            with open(os.path.join(pkgdir, f)) as fh:
                m = re.search(r"^package (\w+)", fh.read(), re.M)
                if m:
                    pkgname = m.group(1)
                    break
    lines = []
    for name, fn, model in cases:
        vec = ", ".join('"%s": %d' % (k, v) for k, v in sorted(model.items()))
        lines.append('\t\t{"%s", map[string]int64{%s}, %s},' % (name, vec, fn))
    test = os.path.join(pkgdir, "zz_verif_replay_test.go")
    with open(test, "w") as f:
        f.write(REPLAY_TMPL % {"pkg": pkgname, "cases": "\n".join(lines)})
    p = sh(["go", "test", "-vet=off", "-count=1", "-run", "TestVerifReplay", "-v", "./" + pkg_rel], cwd=ctx.ws, check=False, timeout=timeout)
    out = {}
    for m in re.finditer(r"CASE (\S+)\n(.*?)ENDCASE", p.stdout, re.S):
        body = m.group(2)
        logs = parse_native_logs(body) or {}
        fm = re.search(r"FAILS \[(.*?)\]", body)
        pm = re.search(r"PANIC (.*)", body)
        out[m.group(1)] = {
            "logs": logs,
            "fails": [int(x) for x in fm.group(1).split()] if fm and fm.group(1).strip() else [],
            "panic": pm.group(1).strip() if pm else "",
        }
    if not out:
        out["_error"] = p.stdout[-3000:]
    return out, test


# ------------------------------------------------------------------------------------------------
# known findings


def load_known():
    p = os.path.join(VERIF, "known_findings.json")
    if not os.path.exists(p):
        return {"known": [], "fixed": []}
    with open(p) as f:
        return json.load(f)


def match_known(pid, driver, failure, tags=()):
    """A violation is a known finding only if an entry for this property matches the driver name
    (regex) and, if given, the failure kind / a required feature tag / an event of the diverging
    logs. Anything else is reported as VIOLATION."""
    for k in load_known().get("known", []):
        if k["property"] != pid and pid not in k.get("also", []):
            continue
        mt = k.get("match", {})
        if "driver" in mt and not re.search(mt["driver"], driver):
            continue
        if "kind" in mt and failure.get("kind") not in mt["kind"]:
            continue
        if "tag" in mt and mt["tag"] not in tags:
            continue
        return k
    return None


def save_replay(ctx, case_id, files, meta):
    h = hashlib.sha1(case_id.encode()).hexdigest()[:12]
    d = os.path.join(VERIF, "replays", ctx.pid, h)
    os.makedirs(d, exist_ok=True)
    for src in files:
        if os.path.exists(src):
            shutil.copy(src, os.path.join(d, os.path.basename(src)))
    with open(os.path.join(d, "meta.json"), "w") as f:
        json.dump(meta, f, indent=1)
    return d


# ------------------------------------------------------------------------------------------------
# evidence


def evidence_dir():
    # runs against a mutated copy (VERIF_REPO) must not overwrite the evidence of the real tree
    if os.path.realpath(REPO) != "/repo":
        return os.environ.get("VERIF_EVIDENCE_DIR", "/var/tmp/verif_mutant_evidence")
    if os.environ.get("VERIF_SWEEP_EVIDENCE_DIR"):
        return os.environ["VERIF_SWEEP_EVIDENCE_DIR"]  # seed sweeps of my own (tools), never set by a registered command
    return os.path.join(VERIF, "evidence")


def write_evidence(ctx, level, coverage, assumptions, violations):
    os.makedirs(evidence_dir(), exist_ok=True)
    ev = {
        "property_id": ctx.pid,
        "tier": ctx.tier,
        "seed": ctx.seed,
        "level": level,
        "coverage": coverage,
        "assumptions": assumptions,
        "wall_s": round(time.time() - ctx.t0, 2),
        "violations": violations,
    }
    with open(os.path.join(evidence_dir(), ctx.pid + ".json"), "w") as f:
        json.dump(ev, f, indent=1, sort_keys=False)


def summarize_engine(res):
    """Aggregate counters over an engine result."""
    ds = res["drivers"]
    agg = {
        "drivers": len(ds),
        "drivers_holds": sum(1 for d in ds if d["status"] == "holds"),
        "drivers_violated": sum(1 for d in ds if d["status"] == "violated"),
        "drivers_undecided": sum(1 for d in ds if d["status"] == "undecided"),
        "paths": sum(d["paths"] for d in ds),
        "paths_completed": sum(d["completed"] for d in ds),
        "paths_infeasible": sum(d["infeasible"] for d in ds),
        "ssa_instructions_executed": sum(d["steps"] for d in ds),
        "branch_decisions": sum(d["branches"] for d in ds),
        "assertions_discharged": sum(d["asserts_proved"] for d in ds),
        "queries": sum(d["queries"] for d in ds),
        "queries_sat": sum(d["q_sat"] for d in ds),
        "queries_unsat": sum(d["q_unsat"] for d in ds),
        "queries_unknown": sum(d["q_unknown"] for d in ds),
        "solver_time_s": round(sum(d["solver_s"] for d in ds), 2),
        "trace_shapes": sum(d["trace_shapes"] for d in ds),
    }
    und = {}
    for d in ds:
        if d["status"] == "undecided":
            for k, v in (d.get("aborted") or {}).items():
                und[k] = und.get(k, 0) + 1
            if d.get("inconclusive"):
                und["solver-unknown"] = und.get("solver-unknown", 0) + 1
            if not d.get("aborted") and not d.get("inconclusive"):
                und["vacuous"] = und.get("vacuous", 0) + 1
    agg["undecided_by_reason"] = und
    return agg


def funcs_encoded(res, prefixes=("github.com/goghcrow/go-co",)):
    fe = res.get("functions_encoded", {})
    keep = {k: v for k, v in fe.items() if any(p in k for p in prefixes)}
    return dict(sorted(keep.items()))


# ------------------------------------------------------------------------------------------------


def main(argv):
    if len(argv) >= 2 and argv[0] == "--replay":
        return replay_saved(argv[1])
    if len(argv) < 1:
        print(__doc__ or "usage: check <ID> <quick|thorough>")
        return 2
    pid = argv[0]
    tier = argv[1] if len(argv) > 1 else os.environ.get("VERIF_TIER", "quick")
    seed = int(os.environ.get("VERIF_SEED", "1"))
    import plans  # noqa: registers CLAIMED

    if pid not in CLAIMED:
        print("ERROR unknown or unclaimed property", pid)
        return 2
    ctx = Ctx(pid, tier, seed)
    try:
        build_engine()
        make_ws(ctx)
        rc = CLAIMED[pid](ctx)
        return rc
    except CheckError as e:
        print("ERROR check could not run:", e)
        return 2
    except subprocess.TimeoutExpired as e:
        print("ERROR timeout:", e)
        return 2
    finally:
        ctx.cleanup()


def replay_saved(path):
    meta_p = os.path.join(path, "meta.json")
    if not os.path.exists(meta_p):
        print("no meta.json under", path)
        return 2
    with open(meta_p) as f:
        meta = json.load(f)
    print(json.dumps(meta, indent=1))
    cmd = meta.get("rerun")
    if cmd:
        print("re-run with:", cmd)
    return 0
