// Package conf: exported package-level state of another package, read by corpus generators
// (a qualified identifier is not a constant).
package conf

const Max = 7

var Level int

var Box struct{ V int }
