package st

import (
	"github.com/goghcrow/go-co/seq"
	rt "verifws/verifrt"
)

func GSelf(a int) seq.Iterator[int] {
	return seq.Start[int](seq.Delay[int](func() seq.Seq[int] {
		return seq.Bind[int](a, func() seq.Seq[int] {
			if a&1 == 0 {
				return seq.Return[int]() // wrong on purpose
			}
			return seq.Bind[int](a+1, seq.Return[int])
		})
	}))
}

func Drive_SelfTestBad() {
	a := rt.NondetInt(1)
	it := GSelf(a)
	for it.MoveNext() {
		rt.Emit(rt.YIELD, it.Current())
	}
	rt.Emit(rt.END, 0)
}
