// Package h: engine sensitivity self-test for single-world harnesses: one assertion that is
// violated for exactly one input value and one vacuous driver.
package h

import rt "verifws/verifrt"

func Drive_SelfTestBad() {
	x := rt.NondetInt(1)
	rt.Assert(x*2 != 84, 4242) // fails only for x = 42 (and x = 42 + 2^63)
}

func Drive_SelfTestVacuous() {
	x := rt.NondetInt(1)
	rt.Assume(x > 5 && x < 3)
	rt.Assert(false, 4243)
}
