// Package st: engine sensitivity self-test. The "generated" counterpart in ../outbad is hand
// written and WRONG on purpose (it drops the second yield when a is even); every run of a
// corpus check must report Drive_SelfTestBad as violated, otherwise the engine is blind.
package st

import (
	. "github.com/goghcrow/go-co"
	rt "verifws/verifrt"
)

func GSelf(a int) (_ Iter[int]) {
	Yield(a)
	Yield(a + 1)
	return
}

func Drive_SelfTestBad() {
	a := rt.NondetInt(1)
	it := GSelf(a)
	for it.MoveNext() {
		rt.Emit(rt.YIELD, it.Current())
	}
	rt.Emit(rt.END, 0)
}
