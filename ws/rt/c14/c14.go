// Package c14: iterators started from ONE shared seq term. A Seq value is a description of a
// computation; every Start must give an independent run of it, whatever the combinators keep
// inside their closures. (Compiled generators build a fresh term per call, so this history is
// reachable through the public seq API only.)
package c14

import (
	"github.com/goghcrow/go-co/seq"
	rt "verifws/verifrt"
)

func terms(a, b int) []seq.Seq[int] {
	leaf := func(v int) seq.Seq[int] { return seq.Bind(v, seq.Normal[int]) }
	counted := seq.Delay(func() seq.Seq[int] {
		i := 0
		return seq.For(func() bool { return i < 3 }, func() { i++ }, seq.Delay(func() seq.Seq[int] {
			return seq.Bind(a+i, seq.Normal[int])
		}))
	})
	return []seq.Seq[int]{
		seq.Combine(leaf(a), leaf(b)),
		seq.Combine(seq.Combine(leaf(a), leaf(a+1)), leaf(b)),
		seq.Combine(seq.Bind(a, func() seq.Seq[int] { return leaf(a + 1) }), seq.Combine(leaf(b), leaf(b+1))),
		seq.Combine(counted, leaf(b)),
		seq.Combine(leaf(a), counted),
		seq.Breakable(seq.Combine(leaf(a), seq.Combine(seq.Break[int](), leaf(b)))),
		seq.Loop(seq.Combine(leaf(a), seq.Continuable(seq.Combine(leaf(b), seq.Break[int]())))),
		seq.While(func() bool { return true }, seq.Combine(leaf(a), seq.Combine(leaf(b), seq.Break[int]()))),
	}
}

// DriveShared: k iterators over the same term, m advances each, every interleaving; the log of
// each iterator must equal its solo log, and no heap cell may be written under two actors.
func DriveShared(ti, k, m int) {
	a, b := rt.NondetInt(1), rt.NondetInt(2)
	term := terms(a, b)[ti]
	step := func(it seq.Iterator[int]) {
		if it.MoveNext() {
			rt.Emit(rt.YIELD, it.Current())
		} else {
			rt.Emit(rt.ADV_END, 0)
		}
	}
	for i := 0; i < k; i++ {
		rt.SetLog(i)
		it := seq.Start(term)
		for s := 0; s < m; s++ {
			step(it)
		}
	}
	its := make([]seq.Iterator[int], k)
	left := make([]int, k)
	for i := 0; i < k; i++ {
		rt.Actor(i + 1)
		its[i] = seq.Start(term)
		rt.Actor(0)
		left[i] = m
	}
	for t := 0; t < k*m; t++ {
		cand := make([]int, 0, k)
		for i := 0; i < k; i++ {
			if left[i] > 0 {
				cand = append(cand, i)
			}
		}
		i := cand[0]
		if len(cand) > 1 {
			i = cand[rt.Choose(7, len(cand))]
		}
		rt.SetLog(10 + i)
		rt.Actor(i + 1)
		step(its[i])
		rt.Actor(0)
		left[i]--
	}
	rt.SetLog(0)
	for i := 0; i < k; i++ {
		rt.AssertSameLogs(i, 10+i, 1420+i)
	}
	rt.AssertDisjointFootprints(1430)
}

// echo yields what it received (plus base) three times; a relay drives an inner echo by MoveNext
// from inside its own step, the way a delegating generator advances its delegate.
func echo(base int) seq.Seq[int] {
	var loop func(last, i int) seq.Seq[int]
	loop = func(last, i int) seq.Seq[int] {
		if i == 3 {
			return seq.Normal[int]()
		}
		return seq.BindRecv(base+last, func(recv int) seq.Seq[int] { return loop(recv, i+1) })
	}
	return seq.Delay(func() seq.Seq[int] { return loop(0, 0) })
}

func relay(base int) seq.Seq[int] {
	return seq.Delay(func() seq.Seq[int] {
		inner := seq.Start(echo(base + 100))
		var loop func(i int) seq.Seq[int]
		loop = func(i int) seq.Seq[int] {
			if i == 3 || !inner.MoveNext() {
				return seq.Normal[int]()
			}
			return seq.BindRecv(inner.Current(), func(recv int) seq.Seq[int] { return loop(i + 1) })
		}
		return loop(0)
	})
}

// DriveSend: iterator 0 is driven with Send (symbolic values), iterator 1 with MoveNext; both
// solo and under every interleaving. A value in flight must reach the generator it was sent to
// and nobody else - not another top-level iterator, not an iterator advanced inside the step.
func DriveSend(which, m int) {
	a, b := rt.NondetInt(1), rt.NondetInt(2)
	sent := make([]int, 2*m)
	for i := range sent {
		sent[i] = rt.NondetInt(3)
	}
	mk := func(i int) seq.Generator[int] {
		if i == 0 {
			if which == 0 {
				return seq.Start(echo(a)).(seq.Generator[int])
			}
			return seq.Start(relay(a)).(seq.Generator[int])
		}
		return seq.Start(echo(b)).(seq.Generator[int])
	}
	step := func(i int, it seq.Generator[int], s int) {
		if i == 0 {
			if v, ok := it.Send(sent[s]); ok {
				rt.Emit(rt.YIELD, v)
			} else {
				rt.Emit(rt.ADV_END, 0)
			}
			return
		}
		if it.MoveNext() {
			rt.Emit(rt.YIELD, it.Current())
		} else {
			rt.Emit(rt.ADV_END, 0)
		}
	}
	for i := 0; i < 2; i++ {
		rt.SetLog(i)
		it := mk(i)
		for s := 0; s < m; s++ {
			step(i, it, s)
		}
	}
	var its [2]seq.Generator[int]
	var done [2]int
	for i := 0; i < 2; i++ {
		rt.Actor(i + 1)
		its[i] = mk(i)
		rt.Actor(0)
	}
	for t := 0; t < 2*m; t++ {
		i := 0
		switch {
		case done[0] == m:
			i = 1
		case done[1] == m:
			i = 0
		default:
			i = rt.Choose(7, 2)
		}
		rt.SetLog(10 + i)
		rt.Actor(i + 1)
		step(i, its[i], done[i])
		rt.Actor(0)
		done[i]++
	}
	rt.SetLog(0)
	rt.AssertSameLogs(0, 10, 1440)
	rt.AssertSameLogs(1, 11, 1441)
	rt.AssertDisjointFootprints(1442)
}
