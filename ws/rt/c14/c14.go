// Package c14: iterators started from ONE shared seq term. A Seq value is a description of a
// computation; every Start must give an independent run of it, whatever the combinators keep
// inside their closures. (Compiled generators build a fresh term per call, so this history is
// reachable through the public seq API only.)
package c14

import (
	"github.com/goghcrow/go-co/seq"
	rt "verifws/verifrt"
)

func terms(a, b int) []seq.Seq[int] {
	leaf := func(v int) seq.Seq[int] { return seq.Bind(v, seq.Normal[int]) }
	counted := seq.Delay(func() seq.Seq[int] {
		i := 0
		return seq.For(func() bool { return i < 3 }, func() { i++ }, seq.Delay(func() seq.Seq[int] {
			return seq.Bind(a+i, seq.Normal[int])
		}))
	})
	return []seq.Seq[int]{
		seq.Combine(leaf(a), leaf(b)),
		seq.Combine(seq.Combine(leaf(a), leaf(a+1)), leaf(b)),
		seq.Combine(seq.Bind(a, func() seq.Seq[int] { return leaf(a + 1) }), seq.Combine(leaf(b), leaf(b+1))),
		seq.Combine(counted, leaf(b)),
		seq.Combine(leaf(a), counted),
		seq.Breakable(seq.Combine(leaf(a), seq.Combine(seq.Break[int](), leaf(b)))),
		seq.Loop(seq.Combine(leaf(a), seq.Continuable(seq.Combine(leaf(b), seq.Break[int]())))),
		seq.While(func() bool { return true }, seq.Combine(leaf(a), seq.Combine(leaf(b), seq.Break[int]()))),
	}
}

// DriveShared: k iterators over the same term, m advances each, every interleaving; the log of
// each iterator must equal its solo log, and no heap cell may be written under two actors.
func DriveShared(ti, k, m int) {
	a, b := rt.NondetInt(1), rt.NondetInt(2)
	term := terms(a, b)[ti]
	step := func(it seq.Iterator[int]) {
		if it.MoveNext() {
			rt.Emit(rt.YIELD, it.Current())
		} else {
			rt.Emit(rt.ADV_END, 0)
		}
	}
	for i := 0; i < k; i++ {
		rt.SetLog(i)
		it := seq.Start(term)
		for s := 0; s < m; s++ {
			step(it)
		}
	}
	its := make([]seq.Iterator[int], k)
	left := make([]int, k)
	for i := 0; i < k; i++ {
		rt.Actor(i + 1)
		its[i] = seq.Start(term)
		rt.Actor(0)
		left[i] = m
	}
	for t := 0; t < k*m; t++ {
		cand := make([]int, 0, k)
		for i := 0; i < k; i++ {
			if left[i] > 0 {
				cand = append(cand, i)
			}
		}
		i := cand[0]
		if len(cand) > 1 {
			i = cand[rt.Choose(7, len(cand))]
		}
		rt.SetLog(10 + i)
		rt.Actor(i + 1)
		step(its[i])
		rt.Actor(0)
		left[i]--
	}
	rt.SetLog(0)
	for i := 0; i < k; i++ {
		rt.AssertSameLogs(i, 10+i, 1420+i)
	}
	rt.AssertDisjointFootprints(1430)
}
