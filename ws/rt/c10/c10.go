// Package c10: the built-in range iterators of seq/iter.go against Go's range statement, in the
// same process, on symbolic inputs. Log 1 = native range, log 0 = seq.New*Iter.
package c10

import (
	"github.com/goghcrow/go-co/seq"
	rt "verifws/verifrt"
)

const (
	tagK   = 30
	tagV   = 31
	tagEnd = 32
)

// ---- string: every byte string of length n (bytes fully symbolic) ----

func DriveString(n int) {
	s := rt.NondetString(1, n)
	for i, r := range s {
		rt.EmitTo(1, tagK, i)
		rt.EmitTo(1, tagV, int(r))
	}
	rt.EmitTo(1, tagEnd, 0)
	it := seq.NewStringIter(s)
	for it.MoveNext() {
		p := it.Current()
		rt.EmitTo(0, tagK, p.Key)
		rt.EmitTo(0, tagV, int(p.Val))
	}
	rt.EmitTo(0, tagEnd, 0)
	rt.AssertSameLogs(0, 1, 1001)
}

// ---- long strings: a concrete ASCII prefix of pre bytes, n fully symbolic bytes, a concrete tail ----
// (a decoder that works in blocks must not split a rune at a block boundary)

func DriveStringAt(pre, n int) {
	p := ""
	for i := 0; i < pre; i++ {
		p += "a"
	}
	s := p + rt.NondetString(1, n) + "zz"
	for i, r := range s {
		if i < pre-1 {
			continue
		}
		rt.EmitTo(1, tagK, i)
		rt.EmitTo(1, tagV, int(r))
	}
	rt.EmitTo(1, tagEnd, 0)
	it := seq.NewStringIter(s)
	for it.MoveNext() {
		p := it.Current()
		if p.Key < pre-1 {
			continue
		}
		rt.EmitTo(0, tagK, p.Key)
		rt.EmitTo(0, tagV, int(p.Val))
	}
	rt.EmitTo(0, tagEnd, 0)
	rt.AssertSameLogs(0, 1, 1011)
}

// ---- integer: every n <= max (all n <= 0 in one path) ----

func DriveInt(max int) {
	n := rt.NondetInt(1)
	rt.Assume(n <= max)
	// Go spec: "for i := range n" iterates i = 0 .. n-1, nothing for n <= 0
	for i := 0; i < n; i++ {
		rt.EmitTo(1, tagK, i)
	}
	rt.EmitTo(1, tagEnd, 0)
	it := seq.NewIntegerIter(n)
	for it.MoveNext() {
		rt.EmitTo(0, tagK, it.Current().Key)
	}
	rt.EmitTo(0, tagEnd, 0)
	rt.AssertSameLogs(0, 1, 1002)
}

// ---- slice: length snapshot, live element reads, mutation script in the loop body ----

type mutScript struct {
	ops  []int // per iteration: 0 none, 1 store, 2 append, 3 shrink the variable, 4 nil the variable
	idx  []int
	vals []int
}

func (m *mutScript) apply(step int, s *[]int) {
	if step >= len(m.ops) {
		return
	}
	switch m.ops[step] {
	case 1:
		if m.idx[step] < len(*s) {
			(*s)[m.idx[step]] = m.vals[step]
		}
	case 2:
		*s = append(*s, m.vals[step])
	case 3:
		if len(*s) > 0 {
			*s = (*s)[:len(*s)-1]
		}
	case 4:
		*s = nil
	}
}

func DriveSlice(n, extraCap, steps int) {
	mk := func() []int {
		s := make([]int, n, n+extraCap)
		return s
	}
	elems := make([]int, n)
	for i := range elems {
		elems[i] = rt.NondetInt(1)
	}
	ms := &mutScript{ops: make([]int, steps), idx: make([]int, steps), vals: make([]int, steps)}
	for i := 0; i < steps; i++ {
		ms.ops[i] = rt.Choose(2, 5)
		if ms.ops[i] == 1 && n > 0 {
			ms.idx[i] = rt.Choose(3, n)
		}
		if ms.ops[i] == 1 || ms.ops[i] == 2 {
			ms.vals[i] = rt.NondetInt(4)
		}
	}
	s1 := mk()
	copy(s1, elems)
	step := 0
	for i, v := range s1 {
		rt.EmitTo(1, tagK, i)
		rt.EmitTo(1, tagV, v)
		ms.apply(step, &s1)
		step++
	}
	rt.EmitTo(1, tagEnd, len(s1))
	s0 := mk()
	copy(s0, elems)
	step = 0
	it := seq.NewSliceIter(s0)
	for it.MoveNext() {
		p := it.Current()
		rt.EmitTo(0, tagK, p.Key)
		rt.EmitTo(0, tagV, p.Val)
		ms.apply(step, &s0)
		step++
	}
	rt.EmitTo(0, tagEnd, len(s0))
	rt.AssertSameLogs(0, 1, 1003)
}

// nil slice and nil map
func DriveNil() {
	var s []int
	for i, v := range s {
		rt.EmitTo(1, tagK, i)
		rt.EmitTo(1, tagV, v)
	}
	it := seq.NewSliceIter(s)
	for it.MoveNext() {
		rt.EmitTo(0, tagK, it.Current().Key)
	}
	var m map[string]int
	for k, v := range m {
		rt.EmitTo(1, tagK, len(k))
		rt.EmitTo(1, tagV, v)
	}
	it2 := seq.NewMapIter(m)
	for it2.MoveNext() {
		rt.EmitTo(0, tagK, len(it2.Current().Key))
	}
	rt.AssertSameLogs(0, 1, 1004)
}

// ---- maps ----
// The engine iterates maps in insertion order in both halves (reflect.MapIter has range
// semantics); entries deleted before being reached are skipped by both.

func DriveMapIntInt(n, steps int) {
	mk := func(vals []int) map[int]int {
		m := map[int]int{}
		for i := 0; i < n; i++ {
			m[i*10] = vals[i]
		}
		return m
	}
	vals := make([]int, n)
	for i := range vals {
		vals[i] = rt.NondetInt(1)
	}
	// per iteration: j<n = delete key j*10, n = nothing, n+1 = create a new key, n+2 = overwrite key 0
	del := make([]int, steps)
	nv := make([]int, steps)
	for i := range del {
		del[i] = rt.Choose(2, n+3)
		nv[i] = rt.NondetInt(3)
	}
	mutate := func(m map[int]int, step int) {
		if step >= steps {
			return
		}
		switch {
		case del[step] < n:
			delete(m, del[step]*10)
		case del[step] == n+1:
			m[1000+step] = nv[step] // an entry created during the loop may be produced or skipped
		case del[step] == n+2:
			m[0] = nv[step]
		}
	}
	m1 := mk(vals)
	step := 0
	for k, v := range m1 {
		rt.EmitTo(1, tagK, k)
		rt.EmitTo(1, tagV, v)
		mutate(m1, step)
		step++
	}
	rt.EmitTo(1, tagEnd, len(m1))
	m0 := mk(vals)
	step = 0
	it := seq.NewMapIter(m0)
	for it.MoveNext() {
		p := it.Current()
		rt.EmitTo(0, tagK, p.Key)
		rt.EmitTo(0, tagV, p.Val)
		mutate(m0, step)
		step++
	}
	rt.EmitTo(0, tagEnd, len(m0))
	rt.AssertSameLogs(0, 1, 1005)
}

// map[string]any with nil interface values and map[any]int with a nil interface key
func DriveMapStringAny(n int) {
	keys := []string{"a", "bb", "ccc"}
	mk := func(kinds []int, vals []int) map[string]any {
		m := map[string]any{}
		for i := 0; i < n; i++ {
			switch kinds[i] {
			case 0:
				m[keys[i]] = nil
			case 1:
				m[keys[i]] = vals[i]
			case 2:
				m[keys[i]] = "s"
			}
		}
		return m
	}
	kinds := make([]int, n)
	vals := make([]int, n)
	for i := 0; i < n; i++ {
		kinds[i] = rt.Choose(1, 3)
		vals[i] = rt.NondetInt(2)
	}
	m1 := mk(kinds, vals)
	for k, v := range m1 {
		rt.EmitTo(1, tagK, len(k))
		rt.EmitAnyTo(1, tagV, v)
	}
	m0 := mk(kinds, vals)
	it := seq.NewMapIter(m0)
	for it.MoveNext() {
		p := it.Current()
		rt.EmitTo(0, tagK, len(p.Key))
		rt.EmitAnyTo(0, tagV, p.Val)
	}
	rt.AssertSameLogs(0, 1, 1006)
}

func DriveMapAnyInt(n int) {
	mk := func(kinds []int, vals []int) map[any]int {
		m := map[any]int{}
		for i := 0; i < n; i++ {
			switch kinds[i] {
			case 0:
				m[nil] = vals[i]
			case 1:
				m[i] = vals[i]
			case 2:
				m["k"] = vals[i]
			}
		}
		return m
	}
	kinds := make([]int, n)
	vals := make([]int, n)
	for i := 0; i < n; i++ {
		kinds[i] = rt.Choose(1, 3)
		vals[i] = rt.NondetInt(2)
	}
	m1 := mk(kinds, vals)
	for k, v := range m1 {
		rt.EmitAnyTo(1, tagK, k)
		rt.EmitTo(1, tagV, v)
	}
	m0 := mk(kinds, vals)
	it := seq.NewMapIter(m0)
	for it.MoveNext() {
		p := it.Current()
		rt.EmitAnyTo(0, tagK, p.Key)
		rt.EmitTo(0, tagV, p.Val)
	}
	rt.AssertSameLogs(0, 1, 1007)
}

// ---- channel: buffered, n values, closed ----

func DriveChan(n int) {
	vals := make([]int, n)
	for i := range vals {
		vals[i] = rt.NondetInt(1)
	}
	mk := func() chan int {
		ch := make(chan int, n)
		for _, v := range vals {
			ch <- v
		}
		close(ch)
		return ch
	}
	for v := range mk() {
		rt.EmitTo(1, tagV, v)
	}
	rt.EmitTo(1, tagEnd, 0)
	it := seq.NewChanIter[int](mk())
	for it.MoveNext() {
		rt.EmitTo(0, tagV, it.Current().Key)
	}
	rt.EmitTo(0, tagEnd, 0)
	rt.AssertSameLogs(0, 1, 1008)
}
