package c10

func Drive_string_3()   { DriveString(3) }
func Drive_int_4()      { DriveInt(4) }
func Drive_slice_2()    { DriveSlice(2, 1, 2) }
func Drive_nil()        { DriveNil() }
func Drive_mapii_2()    { DriveMapIntInt(2, 2) }
func Drive_mapsa_2()    { DriveMapStringAny(2) }
func Drive_mapai_2()    { DriveMapAnyInt(2) }
func Drive_chan_2()     { DriveChan(2) }
