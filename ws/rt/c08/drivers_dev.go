package c08

func Drive_k8() { Drive(kCombine, 4, 3, 4, 4) }
func Drive_k9() { Drive(kFor, 4, 3, 4, 4) }
func Drive_k5() { Drive(kBind, 4, 3, 4, 4) }
