// Package c08: the real seq combinators against a direct-style reference interpreter.
//
// A term shape is chosen nondeterministically (forked by the executor), yielded values, values
// sent by the consumer, return values and the outcome of every loop-condition evaluation are
// symbolic. The term is run (a) through seq.Start + MoveNext/Send/Current/Result and (b) through
// refExec, a recursive interpreter for structured loops with break/continue/return that calls
// the consumer inline at every yield. Both write event logs that must be equal.
package c08

import (
	"github.com/goghcrow/go-co/seq"
	rt "verifws/verifrt"
)

const (
	kNormal = iota
	kBreak
	kContinue
	kReturn
	kReturnValue
	kBind
	kBindRecv
	kDelay
	kCombine
	kFor
	kWhile
	kLoop
	kBreakable
	kContinuable
	nKinds
)

const (
	tagOp   = 20
	tagBool = 21
	tagVal  = 22
	tagRes  = 23
	tagCond = 24
	tagPost = 25
	tagRecv = 26
)

type node struct {
	kind             int
	id               int
	val              int
	kids             []*node
	hasCond, hasPost bool
}

type builder struct {
	budget int
	nextID int
	forced []int // kinds of the first generated nodes (sharding); -1 = free
}

func (b *builder) gen(depth int) *node {
	var kind int
	if len(b.forced) > 0 && b.forced[0] >= 0 {
		kind = b.forced[0]
		b.forced = b.forced[1:]
		rt.Assume(kind <= kReturnValue || (depth > 0 && b.budget > 1))
		return b.genKind(kind, depth)
	}
	if len(b.forced) > 0 {
		b.forced = b.forced[1:]
	}
	if depth == 0 || b.budget <= 1 {
		kind = rt.Choose(10, kReturnValue+1) // leaves only
	} else {
		kind = rt.Choose(11, nKinds)
	}
	return b.genKind(kind, depth)
}

func (b *builder) genKind(kind, depth int) *node {
	b.budget--
	n := &node{kind: kind, id: b.nextID}
	b.nextID++
	switch kind {
	case kReturnValue:
		n.val = rt.NondetInt(12)
	case kBind, kBindRecv:
		n.val = rt.NondetInt(12)
		n.kids = []*node{b.gen(depth - 1)}
	case kDelay, kWhile, kLoop, kBreakable, kContinuable:
		n.kids = []*node{b.gen(depth - 1)}
		n.hasCond = kind == kWhile
	case kFor:
		n.hasCond = rt.Choose(13, 2) == 1
		n.hasPost = rt.Choose(14, 2) == 1
		n.kids = []*node{b.gen(depth - 1)}
	case kCombine:
		x := b.gen(depth - 1)
		y := b.gen(depth - 1)
		n.kids = []*node{x, y}
	}
	return n
}

// canContinue: the term may signal Continue to its context (loops absorb it).
func canContinue(n *node) bool {
	switch n.kind {
	case kContinue:
		return true
	case kBind, kBindRecv, kDelay, kBreakable:
		return canContinue(n.kids[0])
	case kCombine:
		return canContinue(n.kids[0]) || canContinue(n.kids[1])
	}
	return false // kContinuable absorbs it
}

// yieldsFirst: every run of the term yields before it signals anything.
func yieldsFirst(n *node) bool {
	switch n.kind {
	case kBind, kBindRecv:
		return true
	case kDelay, kBreakable, kContinuable, kCombine:
		return yieldsFirst(n.kids[0])
	}
	return false
}

// leavesOrYields: every run of the term yields at least once or ends with break/return.
func leavesOrYields(n *node) bool {
	switch n.kind {
	case kBind, kBindRecv, kBreak, kReturn, kReturnValue:
		return true
	case kDelay:
		return leavesOrYields(n.kids[0])
	case kCombine:
		return leavesOrYields(n.kids[0]) || (!canContinue(n.kids[0]) && leavesOrYields(n.kids[1]))
	case kBreakable, kContinuable:
		// a break / continue raised inside is absorbed: only a yield counts (conservative)
		return yieldsFirst(n.kids[0])
	}
	return false
}

// terminates: no loop without condition can spin without yielding (such terms diverge in any
// semantics and are excluded; loops with conditions are bounded by the condition budget).
func terminates(n *node) bool {
	for _, k := range n.kids {
		if !terminates(k) {
			return false
		}
	}
	if (n.kind == kLoop || n.kind == kFor) && !n.hasCond {
		return leavesOrYields(n.kids[0])
	}
	return true
}

type env struct {
	conds []bool
	ci    int
}

func (e *env) nextCond() bool {
	if e.ci >= len(e.conds) {
		return false
	}
	c := e.conds[e.ci]
	e.ci++
	return c
}

// compile builds the real combinator term; every thunk / condition / post logs when it runs.
func compile(n *node, e *env) seq.Seq[int] {
	switch n.kind {
	case kNormal:
		return seq.Normal[int]()
	case kBreak:
		return seq.Break[int]()
	case kContinue:
		return seq.Continue[int]()
	case kReturn:
		return seq.Return[int]()
	case kReturnValue:
		return seq.ReturnValue(n.val)
	case kBind:
		return seq.Bind(n.val, func() seq.Seq[int] {
			rt.Emit(rt.EFF, n.id)
			return compile(n.kids[0], e)
		})
	case kBindRecv:
		return seq.BindRecv(n.val, func(recv int) seq.Seq[int] {
			rt.Emit(rt.EFF, n.id)
			rt.Emit(tagRecv, recv)
			return compile(n.kids[0], e)
		})
	case kDelay:
		return seq.Delay(func() seq.Seq[int] {
			rt.Emit(rt.EFF, n.id)
			return compile(n.kids[0], e)
		})
	case kCombine:
		return seq.Combine(compile(n.kids[0], e), compile(n.kids[1], e))
	case kFor:
		var cond func() bool
		var post func()
		if n.hasCond {
			cond = func() bool { rt.Emit(tagCond, n.id); return e.nextCond() }
		}
		if n.hasPost {
			post = func() { rt.Emit(tagPost, n.id) }
		}
		return seq.For(cond, post, compile(n.kids[0], e))
	case kWhile:
		return seq.While(func() bool { rt.Emit(tagCond, n.id); return e.nextCond() }, compile(n.kids[0], e))
	case kLoop:
		return seq.Loop(compile(n.kids[0], e))
	case kBreakable:
		return seq.Breakable(compile(n.kids[0], e))
	case kContinuable:
		return seq.Continuable(compile(n.kids[0], e))
	}
	panic("bad kind")
}

const (
	sNormal = iota
	sBreak
	sContinue
	sReturn
	sStop // the consumer stopped: unwind without running anything
)

type ref struct {
	k       int
	nOps    int
	script  []int
	sent    []int
	stopped bool
	e       *env
}

// yield: the generator delivers v; the pending consumer operation completes with (true, v) and
// the consumer issues its next operation (or stops). Returns the value sent in.
func (r *ref) yield(v int) int {
	rt.EmitTo(1, tagBool, 1)
	rt.EmitTo(1, tagVal, v)
	r.k++
	if r.k >= r.nOps {
		r.stopped = true
		return 0
	}
	rt.EmitTo(1, tagOp, r.script[r.k])
	if r.script[r.k] == 1 {
		return r.sent[r.k]
	}
	return 0
}

func (r *ref) exec(n *node) (int, int) {
	switch n.kind {
	case kNormal:
		return sNormal, 0
	case kBreak:
		return sBreak, 0
	case kContinue:
		return sContinue, 0
	case kReturn:
		return sReturn, 0
	case kReturnValue:
		return sReturn, n.val
	case kBind, kBindRecv:
		recv := r.yield(n.val)
		if r.stopped {
			return sStop, 0
		}
		rt.EmitTo(1, rt.EFF, n.id)
		if n.kind == kBindRecv {
			rt.EmitTo(1, tagRecv, recv)
		}
		return r.exec(n.kids[0])
	case kDelay:
		rt.EmitTo(1, rt.EFF, n.id)
		return r.exec(n.kids[0])
	case kCombine:
		s, v := r.exec(n.kids[0])
		if s != sNormal {
			return s, v
		}
		return r.exec(n.kids[1])
	case kBreakable, kContinuable:
		// a statement that owns break (switch) / a loop body in front of a yielding post
		s, v := r.exec(n.kids[0])
		if (n.kind == kBreakable && s == sBreak) || (n.kind == kContinuable && s == sContinue) {
			return sNormal, 0
		}
		return s, v
	case kFor, kWhile, kLoop:
		first := true
		for {
			if !first && n.hasPost {
				rt.EmitTo(1, tagPost, n.id)
			}
			first = false
			if n.hasCond {
				rt.EmitTo(1, tagCond, n.id)
				if !r.e.nextCond() {
					return sNormal, 0
				}
			}
			s, v := r.exec(n.kids[0])
			switch s {
			case sBreak:
				return sNormal, 0
			case sReturn, sStop:
				return s, v
			}
		}
	}
	panic("bad kind")
}

func b2i(b bool) int {
	if b {
		return 1
	}
	return 0
}

// Drive: root kind fixed (sharding), at most `budget` nodes and `depth` levels, nOps consumer
// operations, at most nConds condition evaluations that may be true.
func Drive(rootKind, budget, depth, nOps, nConds int, forced ...int) {
	b := &builder{budget: budget, forced: forced}
	root := b.genKind(rootKind, depth)
	rt.Assume(terminates(root))
	conds := make([]bool, nConds)
	for i := range conds {
		conds[i] = rt.NondetBool(15)
	}
	script := make([]int, nOps)
	sent := make([]int, nOps)

	// implementation; the consumer's operations are drawn lazily (the first is MoveNext, Send on
	// a fresh generator is C09's subject); after the first false exactly one more advance is
	// made (permanence of exhaustion), so histories are not multiplied by dead suffixes
	e1 := &env{conds: conds}
	it := seq.Start(compile(root, e1)).(seq.Generator[int])
	done := false
	for k := 0; k < nOps; k++ {
		if k > 0 && !done {
			script[k] = rt.Choose(16, 2)
			if script[k] == 1 {
				sent[k] = rt.NondetInt(17)
			}
		}
		rt.EmitTo(0, tagOp, script[k])
		var ok bool
		var v int
		if script[k] == 0 {
			ok = it.MoveNext()
			if ok {
				v = it.Current()
			}
		} else {
			v, ok = it.Send(sent[k])
		}
		rt.EmitTo(0, tagBool, b2i(ok))
		if ok {
			rt.EmitTo(0, tagVal, v)
		} else {
			rt.EmitTo(0, tagRes, it.Result())
			if done {
				nOps = k + 1
				break
			}
			done = true
		}
	}

	// reference
	r := &ref{nOps: nOps, script: script, sent: sent, e: &env{conds: conds}}
	rt.EmitTo(1, tagOp, script[0])
	s, v := r.exec(root)
	if !r.stopped {
		res := 0
		if s == sReturn {
			res = v
		}
		rt.EmitTo(1, tagBool, 0)
		rt.EmitTo(1, tagRes, res)
		for k := r.k + 1; k < nOps; k++ {
			rt.EmitTo(1, tagOp, script[k])
			rt.EmitTo(1, tagBool, 0)
			rt.EmitTo(1, tagRes, res)
		}
	}
	rt.AssertSameLogs(0, 1, 800)
}
