// Package c09: iterator protocol (MoveNext / Current / Send / Result) over all call histories.
//
// The generator family is built directly from the real combinators; a small specification
// automaton written here predicts every return value and every generator-side effect. Both
// write event logs (0 = implementation, 1 = specification) that must be equal.
package c09

import (
	"github.com/goghcrow/go-co/seq"
	rt "verifws/verifrt"
)

const (
	opMoveNext = 0
	opCurrent  = 1
	opSend     = 2
	opResult   = 3

	tagOp   = 20 // which operation the consumer performs
	tagBool = 21
	tagVal  = 22
)

// build constructs a generator with n yields. Step i (0 <= i <= n) logs effect i when it runs.
// echo: the value of yield i>0 is (value received by yield i-1)+1, otherwise vals[i].
// ret: the generator completes with ReturnValue(r), otherwise with Normal().
func build(n int, ret, echo bool, vals []int, r int) seq.Seq[int] {
	var step func(i int, recv int) seq.Seq[int]
	step = func(i int, recv int) seq.Seq[int] {
		rt.Emit(rt.EFF, i)
		if i == n {
			if ret {
				return seq.ReturnValue(r)
			}
			return seq.Normal[int]()
		}
		v := vals[i]
		if echo && i > 0 {
			v = recv + 1
		}
		if echo {
			return seq.BindRecv(v, func(recv int) seq.Seq[int] { return step(i+1, recv) })
		}
		return seq.Bind(v, func() seq.Seq[int] { return step(i+1, 0) })
	}
	return seq.Delay(func() seq.Seq[int] { return step(0, 0) })
}

// spec is the protocol automaton.
type spec struct {
	n            int
	ret, echo    bool
	vals         []int
	r            int
	pos          int
	started      bool
	done         bool
	cur, result  int
}

func (s *spec) advance(sent int) bool {
	if s.done {
		return false // exhaustion is permanent and runs nothing
	}
	rt.EmitTo(1, rt.EFF, s.pos)
	if s.pos == s.n {
		s.done = true
		s.cur = 0
		if s.ret {
			s.result = s.r
		}
		return false
	}
	v := s.vals[s.pos]
	if s.echo && s.pos > 0 {
		v = sent + 1
	}
	s.cur = v
	s.pos++
	return true
}

func (s *spec) moveNext() bool {
	s.started = true
	return s.advance(0)
}

func (s *spec) send(v int) (int, bool) {
	if !s.started {
		if !s.moveNext() {
			return 0, false
		}
	}
	if s.advance(v) {
		return s.cur, true
	}
	return 0, false
}

func b2i(b bool) int {
	if b {
		return 1
	}
	return 0
}

// Drive runs one family member under a nondeterministic history of h operations.
// first >= 0 fixes the first operation (sharding); -1 leaves it nondeterministic.
func Drive(n int, ret, echo bool, h int, first int) {
	vals := make([]int, n)
	for i := range vals {
		vals[i] = rt.NondetInt(1)
	}
	r := rt.NondetInt(2)
	g := seq.Start(build(n, ret, echo, vals, r)).(seq.Generator[int])
	s := &spec{n: n, ret: ret, echo: echo, vals: vals, r: r}
	for j := 0; j < h; j++ {
		var op int
		if j == 0 && first >= 0 {
			op = first
		} else {
			op = rt.Choose(3, 4)
		}
		rt.EmitTo(0, tagOp, op)
		rt.EmitTo(1, tagOp, op)
		switch op {
		case opMoveNext:
			rt.EmitTo(0, tagBool, b2i(g.MoveNext()))
			rt.EmitTo(1, tagBool, b2i(s.moveNext()))
		case opCurrent:
			rt.EmitTo(0, tagVal, g.Current())
			rt.EmitTo(1, tagVal, s.cur)
		case opSend:
			x := rt.NondetInt(4)
			v, ok := g.Send(x)
			rt.EmitTo(0, tagVal, v)
			rt.EmitTo(0, tagBool, b2i(ok))
			sv, sok := s.send(x)
			rt.EmitTo(1, tagVal, sv)
			rt.EmitTo(1, tagBool, b2i(sok))
		case opResult:
			// specified once the generator has completed
			if s.done {
				rt.EmitTo(0, tagVal, g.Result())
				rt.EmitTo(1, tagVal, s.result)
			} else {
				g.Result() // must at least have no effect
			}
		}
	}
	rt.AssertSameLogs(0, 1, 900)
}
