package c09

func Drive_n2_r1_e0() { Drive(2, true, false, 5, -1) }
func Drive_n2_r1_e1() { Drive(2, true, true, 5, -1) }
