// Package c17: call-stack depth while an iterator is advanced must not grow with the number of
// loop iterations that complete without yielding.
package c17

import (
	"github.com/goghcrow/go-co/seq"
	rt "verifws/verifrt"
)

// DriveLoop: a loop whose body completes n times without yielding (normally or with Continue,
// chosen per iteration), then yields. The condition (or, for Loop, the body thunk) samples the
// call depth at every iteration; all samples from iteration 1 on must be equal.
// form: 0 = For(cond, post, body), 1 = While(cond, body), 2 = Loop(body), 3 = For(nil, post, body)
func DriveLoop(form, maxN int) {
	n := rt.NondetInt(1)
	rt.Assume(n >= 0 && n <= maxN)
	var depths []int
	i := 0
	choice := make([]int, maxN+1) // 0 = not drawn yet, 1 = Normal, 2 = Continue (same in both rounds)
	sample := func() { depths = append(depths, rt.Depth()) }
	cond := func() bool { sample(); return true }
	post := func() {}
	body := seq.Delay(func() seq.Seq[int] {
		if form >= 2 {
			sample()
		}
		i++
		if i <= n {
			if choice[i-1] == 0 {
				choice[i-1] = 1 + rt.Choose(2, 2)
			}
			if choice[i-1] == 2 {
				return seq.Continue[int]()
			}
			return seq.Normal[int]()
		}
		return seq.Bind(i, seq.Normal[int])
	})
	var s seq.Seq[int]
	switch form {
	case 0:
		s = seq.For(cond, post, body)
	case 1:
		s = seq.While(cond, body)
	case 2:
		s = seq.Loop(body)
	default:
		s = seq.For(nil, post, body)
	}
	it := seq.Start(s)
	for round := 0; round < 2; round++ { // second round: the same after a resumption
		depths = depths[:0]
		i = 0
		ok := it.MoveNext()
		rt.Assert(ok, 1700)
		for j := 2; j < len(depths); j++ {
			rt.Assert(depths[j] == depths[1], 1701)
		}
	}
}

// DriveNested: inner loop spins m times without yielding inside an outer loop that yields once
// per outer iteration; depth sampled in the outer condition must be the same at every outer
// iteration (the inner loop's frames must be gone).
func DriveNested(maxM int) {
	m := rt.NondetInt(1)
	rt.Assume(m >= 0 && m <= maxM)
	var depths []int
	j := 0
	inner := seq.Delay(func() seq.Seq[int] {
		j = 0
		return seq.While(func() bool { j++; return j <= m }, seq.Normal[int]())
	})
	outerN := 0
	outer := seq.While(func() bool { depths = append(depths, rt.Depth()); outerN++; return outerN <= 4 },
		seq.Combine(inner, seq.Delay(func() seq.Seq[int] { return seq.Bind(outerN, seq.Normal[int]) })))
	it := seq.Start(outer)
	for it.MoveNext() {
	}
	for k := 2; k < len(depths); k++ {
		rt.Assert(depths[k] == depths[1], 1702)
	}
}
