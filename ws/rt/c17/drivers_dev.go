package c17

func Drive_for_6()    { DriveLoop(0, 6) }
func Drive_while_6()  { DriveLoop(1, 6) }
func Drive_loop_6()   { DriveLoop(2, 6) }
func Drive_forp_6()   { DriveLoop(3, 6) }
func Drive_nested_4() { DriveNested(4) }
