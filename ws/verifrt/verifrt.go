// Package verifrt is the harness API shared by every check.
//
// Every function has an ordinary Go body, so harnesses and corpus programs build and run
// natively (that is how solver models are replayed against the real code); the symbolic
// executor gocosym intercepts the functions marked [intrinsic] and gives them their symbolic
// meaning (fresh SMT constants, path-condition updates, solver queries).
package verifrt

import (
	"encoding/json"
	"fmt"
	"os"
	"reflect"
	"runtime"
	"sort"
	"strconv"
	"strings"
)

// Event kinds (the "tag" argument of Emit is free; these are the conventional ones).
const (
	EFF       = 1
	YIELD     = 2
	ADV_BEGIN = 3
	ADV_END   = 4
	CREATED   = 5
	PANIC     = 6
	RESULT    = 7
	DEPTH     = 8
	END       = 9
	RET       = 10
)

type Event struct {
	Tag int
	Val string // canonical rendering (ints in decimal, structural values via render)
}

var (
	vec    = map[string]int64{} // "site:occ" -> value
	occ    = map[int]int{}
	Logs   = map[int][]Event{}
	curLog = 0
	actor  = 0
)

func init() {
	if p := os.Getenv("VERIF_VEC"); p != "" {
		b, err := os.ReadFile(p)
		if err == nil {
			_ = json.Unmarshal(b, &vec)
		}
	}
}

// Reset clears logs and occurrence counters (native replay only).
func Reset() {
	occ = map[int]int{}
	Logs = map[int][]Event{}
	curLog = 0
}

// ResetOcc restarts the occurrence counters (the engine does the same between worlds).
func ResetOcc() { occ = map[int]int{} }

// SetVec installs the nondeterministic vector (native replay only).
func SetVec(v map[string]int64) { vec = v }

func next(site int) int64 {
	k := strconv.Itoa(site) + ":" + strconv.Itoa(occ[site])
	occ[site]++
	return vec[k]
}

// NondetInt returns an arbitrary int. [intrinsic]
func NondetInt(site int) int { return int(next(site)) }

// NondetBool returns an arbitrary bool. [intrinsic]
func NondetBool(site int) bool { return next(site) != 0 }

// NondetByte returns an arbitrary byte. [intrinsic]
func NondetByte(site int) byte { return byte(next(site)) }

// NondetString returns a string of exactly n arbitrary bytes (n concrete on the path). [intrinsic]
func NondetString(site, n int) string {
	b := make([]byte, n)
	for i := range b {
		b[i] = byte(next(site))
	}
	return string(b)
}

// Choose returns an arbitrary value in [0,n); the engine forks over the n values. [intrinsic]
func Choose(site, n int) int {
	v := int(next(site))
	if v < 0 || v >= n {
		panic(fmt.Sprintf("verifrt.Choose: vector value %d outside [0,%d)", v, n))
	}
	return v
}

type AssumeFailed struct{}

// Assume restricts the inputs. [intrinsic]
func Assume(b bool) {
	if !b {
		panic(AssumeFailed{})
	}
}

type AssertFailed struct{ ID int }

// NativeFailures collects failed assertions in native runs.
var NativeFailures []int

// Assert states the property. [intrinsic]
func Assert(b bool, id int) {
	if !b {
		NativeFailures = append(NativeFailures, id)
	}
}

// SetLog selects the log that Emit/EmitAny append to. [intrinsic]
func SetLog(l int) { curLog = l }

// Emit appends (tag, v) to the current log. [intrinsic]
func Emit(tag int, v int) { EmitTo(curLog, tag, v) }

// EmitTo appends (tag, v) to log l. [intrinsic]
func EmitTo(l, tag, v int) {
	Logs[l] = append(Logs[l], Event{tag, strconv.Itoa(v)})
}

// EmitAny appends a structural value. [intrinsic]
func EmitAny(tag int, v any) { EmitAnyTo(curLog, tag, v) }

// EmitAnyTo appends a structural value to log l. [intrinsic]
func EmitAnyTo(l, tag int, v any) {
	Logs[l] = append(Logs[l], Event{tag, Render(v)})
}

// EmitPanic logs the value returned by recover(). [intrinsic]
func EmitPanic(tag int, r any) {
	Logs[curLog] = append(Logs[curLog], Event{tag, RenderPanic(r)})
}

// AssertSameLogs asserts that logs a and b are equal event by event. [intrinsic]
func AssertSameLogs(a, b int, id int) {
	la, lb := Logs[a], Logs[b]
	ok := len(la) == len(lb)
	for i := 0; ok && i < len(la); i++ {
		ok = la[i] == lb[i]
	}
	Assert(ok, id)
}

// Eff logs id when evaluated and returns v (plain Go, not intercepted).
func Eff[T any](id int, v T) T {
	Emit(EFF, id)
	return v
}

// Probe logs the current call depth and passes b through.
func Probe(b bool) bool {
	Emit(DEPTH, Depth())
	return b
}

// Depth is the current call-stack depth. [intrinsic: interpreter frame depth]
func Depth() int {
	var pcs [4096]uintptr
	return runtime.Callers(0, pcs[:])
}

// Actor tags subsequent heap accesses with actor i (footprint tracking, engine only). [intrinsic]
func Actor(i int) { actor = i }

// AssertDepths checks the DEPTH events of a log: mode 0 = all equal from the 2nd sample on,
// mode 1 = constant increments from the 2nd increment on. [intrinsic]
func AssertDepths(l, mode, id int) {
	var ds []int
	for _, e := range Logs[l] {
		if e.Tag == DEPTH {
			v, _ := strconv.Atoi(e.Val)
			ds = append(ds, v)
		}
	}
	ok := true
	if mode == 0 {
		for j := 2; j < len(ds); j++ {
			ok = ok && ds[j] == ds[1]
		}
	} else {
		for j := 3; j < len(ds); j++ {
			ok = ok && ds[j]-ds[j-1] == ds[2]-ds[1]
		}
	}
	Assert(ok, id)
}

// AssertDisjointFootprints: no heap cell written under one actor was touched under another
// (engine only; natively a no-op). [intrinsic]
func AssertDisjointFootprints(id int) {}

// Render gives a canonical text for a logged structural value. The engine produces the same
// text for concrete values: ints in decimal, bools, strings quoted, nil, structs as
// Type{f1,f2}, with package paths stripped from type names.
func Render(v any) string {
	if v == nil {
		return "nil"
	}
	return renderValue(reflect.ValueOf(v))
}

func renderValue(rv reflect.Value) string {
	switch rv.Kind() {
	case reflect.Int, reflect.Int8, reflect.Int16, reflect.Int32, reflect.Int64:
		return strconv.FormatInt(rv.Int(), 10)
	case reflect.Uint, reflect.Uint8, reflect.Uint16, reflect.Uint32, reflect.Uint64, reflect.Uintptr:
		return strconv.FormatUint(rv.Uint(), 10)
	case reflect.Bool:
		if rv.Bool() {
			return "true"
		}
		return "false"
	case reflect.String:
		return strconv.Quote(rv.String())
	case reflect.Struct:
		var b strings.Builder
		b.WriteString(typeName(rv.Type()))
		b.WriteString("{")
		for i := 0; i < rv.NumField(); i++ {
			if i > 0 {
				b.WriteString(",")
			}
			b.WriteString(renderValue(rv.Field(i)))
		}
		b.WriteString("}")
		return b.String()
	case reflect.Array, reflect.Slice:
		var b strings.Builder
		if rv.Kind() == reflect.Array {
			b.WriteString("arr{")
		} else {
			b.WriteString("slice{")
		}
		for i := 0; i < rv.Len(); i++ {
			if i > 0 {
				b.WriteString(",")
			}
			b.WriteString(renderValue(rv.Index(i)))
		}
		b.WriteString("}")
		return b.String()
	case reflect.Interface:
		if rv.IsNil() {
			return "nil"
		}
		return renderValue(rv.Elem())
	case reflect.Ptr:
		if rv.IsNil() {
			return "nil"
		}
		return "<ptr>"
	}
	return "<" + rv.Kind().String() + ">"
}

// typeName: the type's name without package qualifiers ("Pair[int,string]", "struct{...}" for
// unnamed structs is rendered as "struct").
func typeName(t reflect.Type) string {
	n := t.Name()
	if n == "" {
		return t.String()
	}
	return stripPkg(n)
}

// RenderPanic: explicit panic values are rendered like Render; run-time errors by class.
func RenderPanic(r any) string {
	if r == nil {
		return "<nopanic>"
	}
	if e, ok := r.(runtime.Error); ok {
		msg := e.Error()
		switch {
		case strings.Contains(msg, "nil pointer"):
			return "<rt:nil-deref>"
		case strings.Contains(msg, "index out of range"), strings.Contains(msg, "slice bounds"):
			return "<rt:index>"
		case strings.Contains(msg, "divide by zero"):
			return "<rt:div-zero>"
		case strings.Contains(msg, "nil map"):
			return "<rt:nil-map>"
		case strings.Contains(msg, "interface conversion"):
			return "<rt:type-assert>"
		case strings.Contains(msg, "closed channel"):
			return "<rt:closed-chan>"
		}
		return "<rt:other>"
	}
	return "panic{" + Render(r) + "}"
}

func stripPkg(s string) string {
	// drop "path/to/pkg." qualifiers in %#v output
	var b strings.Builder
	i := 0
	for i < len(s) {
		j := i
		for j < len(s) && (isIdent(s[j]) || s[j] == '/' || s[j] == '.') {
			j++
		}
		if j > i {
			tok := s[i:j]
			if k := strings.LastIndexByte(tok, '.'); k >= 0 && !isNumber(tok) {
				tok = tok[k+1:]
			}
			b.WriteString(tok)
			i = j
		} else {
			b.WriteByte(s[i])
			i++
		}
	}
	return b.String()
}

func isIdent(c byte) bool {
	return c == '_' || c >= '0' && c <= '9' || c >= 'a' && c <= 'z' || c >= 'A' && c <= 'Z' || c >= 0x80
}

func isNumber(s string) bool {
	_, err := strconv.ParseFloat(s, 64)
	return err == nil
}

// DumpLogs renders all logs (native replay).
func DumpLogs() string {
	var b strings.Builder
	keys := make([]int, 0, len(Logs))
	for l := range Logs {
		keys = append(keys, l)
	}
	sort.Ints(keys)
	for _, l := range keys {
		fmt.Fprintf(&b, "log %d:", l)
		for _, e := range Logs[l] {
			fmt.Fprintf(&b, " (%d %s)", e.Tag, e.Val)
		}
		b.WriteString("\n")
	}
	return b.String()
}

// ---------------------------------------------------------------------------------------------
// Co: a goroutine-backed coroutine with the iterator API. Used ONLY by the native reference
// twins that the corpus generator prints next to every program (never executed by the engine):
// an independent, direct statement of "Yield suspends the function, MoveNext resumes it".

type coMsg[T any] struct {
	v        T
	done     bool
	panic    any
	panicked bool // the body panicked (the value may be nil: panic(nil) before go 1.21)
}

type Co[T any] struct {
	body    func(yield func(T))
	resume  chan struct{}
	out     chan coMsg[T]
	started bool
	done    bool
	cur     T
}

func NewCo[T any](body func(yield func(T))) *Co[T] {
	return &Co[T]{body: body, resume: make(chan struct{}), out: make(chan coMsg[T])}
}

func (c *Co[T]) MoveNext() bool {
	if c.done {
		return false
	}
	if !c.started {
		c.started = true
		go func() {
			normal := false
			defer func() {
				r := recover()
				c.out <- coMsg[T]{done: true, panic: r, panicked: !normal}
			}()
			c.body(func(v T) {
				c.out <- coMsg[T]{v: v}
				<-c.resume
			})
			normal = true
		}()
	} else {
		c.resume <- struct{}{}
	}
	m := <-c.out
	if m.done {
		c.done = true
		var z T
		c.cur = z
		if m.panicked {
			panic(m.panic)
		}
		return false
	}
	c.cur = m.v
	return true
}

func (c *Co[T]) Current() T { return c.cur }

// YieldFromCo is the textbook reading of YieldFrom: deliver every remaining element of d.
func YieldFromCo[T any](yield func(T), d *Co[T]) {
	for d.MoveNext() {
		yield(d.Current())
	}
}
