package main

import (
	"bufio"
	"fmt"
	"io"
	"os"
	"os/exec"
	"strconv"
	"strings"
	"time"
)

type SatResult int

const (
	Unsat SatResult = iota
	Sat
	Unknown
)

func (r SatResult) String() string { return [...]string{"unsat", "sat", "unknown"}[r] }

// Solver wraps one long-lived SMT solver process (z3 -in by default). Composite terms are
// introduced once with define-fun (global declarations), so the DAG sharing of the term table is
// preserved in the solver input.
type Solver struct {
	cmd     *exec.Cmd
	in      io.WriteCloser
	out     *bufio.Reader
	lines   chan string
	Dead    bool
	Timeouts int
	QueryTimeout time.Duration
	defined map[int]bool
	level   int
	rec     io.Writer // optional transcript for the solver diff

	Queries, NSat, NUnsat, NUnknown, NErrors int
	Time                                     time.Duration
	kind                                     string
}

func solverArgv(kind string) []string {
	switch kind {
	case "z3":
		return []string{"z3", "-in"}
	case "z3-new":
		return []string{"z3-new", "-in"}
	case "cvc5":
		return []string{"cvc5", "--incremental", "--lang=smt2", "--produce-models", "--global-declarations"}
	}
	return strings.Fields(kind)
}

func NewSolver(kind string, rec io.Writer) (*Solver, error) {
	argv := solverArgv(kind)
	cmd := exec.Command(argv[0], argv[1:]...)
	in, err := cmd.StdinPipe()
	if err != nil {
		return nil, err
	}
	outp, err := cmd.StdoutPipe()
	if err != nil {
		return nil, err
	}
	cmd.Stderr = os.Stderr
	if err := cmd.Start(); err != nil {
		return nil, err
	}
	s := &Solver{cmd: cmd, in: in, out: bufio.NewReaderSize(outp, 1<<16), defined: map[int]bool{}, rec: rec, kind: kind,
		lines: make(chan string, 1024), QueryTimeout: 40 * time.Second}
	go func() {
		for {
			l, err := s.out.ReadString('\n')
			if l != "" {
				s.lines <- l
			}
			if err != nil {
				close(s.lines)
				return
			}
		}
	}()
	if kind != "cvc5" {
		s.send("(set-option :global-declarations true)")
		s.send("(set-option :timeout 10000)")
	} else {
		s.send("(set-option :tlimit-per 30000)")
		s.send("(set-logic QF_BV)")
	}
	return s, nil
}

func (s *Solver) send(line string) {
	if s.Dead {
		return
	}
	if s.rec != nil {
		fmt.Fprintln(s.rec, line)
	}
	io.WriteString(s.in, line)
	io.WriteString(s.in, "\n")
}

func (s *Solver) Close() {
	if s.cmd == nil {
		return
	}
	if s.Dead {
		s.cmd.Process.Kill()
		go s.cmd.Wait()
		s.cmd = nil
		return
	}
	s.in.Close()
	done := make(chan struct{})
	go func() { s.cmd.Wait(); close(done) }()
	select {
	case <-done:
	case <-time.After(2 * time.Second):
		s.cmd.Process.Kill()
		<-done
	}
	s.cmd = nil
}

// Reset forgets all assertions and definitions (used between drivers).
func (s *Solver) Reset() {
	s.send("(reset)")
	s.defined = map[int]bool{}
	s.level = 0
	if s.kind != "cvc5" {
		s.send("(set-option :global-declarations true)")
		s.send("(set-option :timeout 10000)")
	} else {
		s.send("(set-option :tlimit-per 30000)")
		s.send("(set-logic QF_BV)")
	}
}

func (s *Solver) define(t *Term) {
	if s.defined[t.id] {
		return
	}
	switch t.op {
	case "const":
		return
	case "var":
		s.defined[t.id] = true
		s.send(fmt.Sprintf("(declare-const %s %s)", t.name, sortOf(t.W)))
		return
	}
	// iterative post-order to avoid deep recursion
	type item struct {
		t    *Term
		done bool
	}
	stack := []item{{t, false}}
	for len(stack) > 0 {
		it := stack[len(stack)-1]
		stack = stack[:len(stack)-1]
		if s.defined[it.t.id] || it.t.op == "const" {
			continue
		}
		if it.t.op == "var" {
			s.defined[it.t.id] = true
			s.send(fmt.Sprintf("(declare-const %s %s)", it.t.name, sortOf(it.t.W)))
			continue
		}
		if it.done {
			s.defined[it.t.id] = true
			s.send(fmt.Sprintf("(define-fun t%d () %s %s)", it.t.id, sortOf(it.t.W), it.t.body()))
			continue
		}
		stack = append(stack, item{it.t, true})
		for _, a := range it.t.args {
			if !s.defined[a.id] && a.op != "const" {
				stack = append(stack, item{a, false})
			}
		}
	}
}

func (s *Solver) Push() { s.send("(push 1)"); s.level++ }
func (s *Solver) Pop()  { s.send("(pop 1)"); s.level-- }

func (s *Solver) Assert(t *Term) {
	s.define(t)
	s.send("(assert " + t.ref() + ")")
}

var errSolverTimeout = fmt.Errorf("solver query exceeded the hard time limit")

// readRaw returns the next output line; the watchdog kills a solver that does not answer within
// QueryTimeout (z3's own :timeout is not honoured in every phase).
func (s *Solver) readRaw() (string, error) {
	if s.Dead {
		return "", errSolverTimeout
	}
	select {
	case l, ok := <-s.lines:
		if !ok {
			s.Dead = true
			return "", io.EOF
		}
		return l, nil
	case <-time.After(s.QueryTimeout):
		s.Dead = true
		s.Timeouts++
		s.cmd.Process.Kill()
		return "", errSolverTimeout
	}
}

func (s *Solver) readLine() (string, error) {
	l, err := s.readRaw()
	return strings.TrimSpace(l), err
}

// Check runs check-sat on the current assertion stack.
func (s *Solver) Check() SatResult {
	t0 := time.Now()
	s.send("(check-sat)")
	s.Queries++
	res := Unknown
	sawErr := false
	for {
		l, err := s.readLine()
		if err != nil {
			s.NErrors++
			res = Unknown
			break
		}
		if l == "" {
			continue
		}
		if strings.HasPrefix(l, "(error") {
			sawErr = true
			s.NErrors++
			fmt.Fprintln(os.Stderr, "solver:", l)
			continue
		}
		switch l {
		case "sat":
			res = Sat
		case "unsat":
			res = Unsat
		case "unknown":
			res = Unknown
		default:
			fmt.Fprintln(os.Stderr, "solver: unexpected output:", l)
			continue
		}
		break
	}
	if sawErr {
		res = Unknown // any error line makes the verdict inconclusive
	}
	switch res {
	case Sat:
		s.NSat++
	case Unsat:
		s.NUnsat++
	default:
		s.NUnknown++
	}
	s.Time += time.Since(t0)
	return res
}

// CheckWith checks the current stack plus extra (scoped).
func (s *Solver) CheckWith(extra ...*Term) SatResult {
	for _, e := range extra {
		s.define(e)
	}
	s.Push()
	for _, e := range extra {
		s.send("(assert " + e.ref() + ")")
	}
	r := s.Check()
	s.Pop()
	return r
}

// Model returns values of the given variables; must follow a Sat answer on the same stack, so
// callers use ModelWith.
func (s *Solver) ModelWith(vars []*Term, extra ...*Term) (SatResult, map[string]uint64) {
	for _, e := range extra {
		s.define(e)
	}
	for _, v := range vars {
		s.define(v)
	}
	s.Push()
	defer s.Pop()
	for _, e := range extra {
		s.send("(assert " + e.ref() + ")")
	}
	r := s.Check()
	if r != Sat {
		return r, nil
	}
	model := map[string]uint64{}
	if len(vars) == 0 {
		return r, model
	}
	var sb strings.Builder
	sb.WriteString("(get-value (")
	for _, v := range vars {
		sb.WriteString(v.name)
		sb.WriteString(" ")
	}
	sb.WriteString("))")
	s.send(sb.String())
	// read a balanced s-expression
	depth := 0
	started := false
	var txt strings.Builder
	for {
		l, err := s.readRaw()
		if err != nil {
			return Unknown, nil
		}
		for _, c := range l {
			if c == '(' {
				depth++
				started = true
			} else if c == ')' {
				depth--
			}
		}
		txt.WriteString(l)
		if started && depth <= 0 {
			break
		}
	}
	parseModel(txt.String(), model)
	return r, model
}

// parseModel extracts (name value) pairs from a get-value answer.
func parseModel(s string, out map[string]uint64) {
	// tokens: ( ( name #x.. ) ( name true ) ( name (_ bv5 8) ) )
	toks := tokenize(s)
	for i := 0; i+1 < len(toks); i++ {
		if toks[i] == "(" && i+2 < len(toks) && toks[i+1] != "(" {
			name := toks[i+1]
			v := toks[i+2]
			switch {
			case strings.HasPrefix(v, "#x"):
				u, _ := strconv.ParseUint(v[2:], 16, 64)
				out[name] = u
			case strings.HasPrefix(v, "#b"):
				u, _ := strconv.ParseUint(v[2:], 2, 64)
				out[name] = u
			case v == "true":
				out[name] = 1
			case v == "false":
				out[name] = 0
			case v == "(" && i+4 < len(toks) && toks[i+3] == "_" && strings.HasPrefix(toks[i+4], "bv"):
				u, _ := strconv.ParseUint(toks[i+4][2:], 10, 64)
				out[name] = u
			}
		}
	}
}

func tokenize(s string) []string {
	var toks []string
	cur := ""
	flush := func() {
		if cur != "" {
			toks = append(toks, cur)
			cur = ""
		}
	}
	for _, c := range s {
		switch c {
		case '(', ')':
			flush()
			toks = append(toks, string(c))
		case ' ', '\n', '\t', '\r':
			flush()
		default:
			cur += string(c)
		}
	}
	flush()
	return toks
}
