package main

import (
	"fmt"
	"go/types"
	"strings"

	"golang.org/x/tools/go/ssa"
)

// Value is an engine value. Scalars are *Term; structure is concrete.
type Value interface{}

// StrV is a string: a concrete-length vector of byte terms (each W=8).
type StrV struct{ b []*Term }

// StructV / ArrayV / TupleV are immutable vectors of values.
type StructV []Value
type ArrayV []Value
type TupleV []Value

// Cell is a memory location. Aggregates (struct, array) are trees of cells so that FieldAddr
// and IndexAddr yield pointers to sub-locations.
type Cell struct {
	id   int
	typ  types.Type
	v    Value
	sub  []*Cell
	name string
	// footprint tracking (C14): actor ids that wrote / read this cell
	wr, rd uint32
}

// SymPtr is a pointer to one of several cells selected by a symbolic index (already known to
// be in range). Loads merge with ite, stores fork.
type SymPtr struct {
	cells []*Cell
	idx   *Term // width 64
}

type SliceV struct {
	arr           *Cell // array cell; nil for the nil slice
	off, len, cap int
	elem          types.Type
}

type IfaceV struct {
	t types.Type // nil for the nil interface
	v Value
}

type Closure struct {
	fn    *ssa.Function
	binds []Value
	id    int
}

type MapEntry struct {
	k, v    Value
	deleted bool
}

type MapObj struct {
	id      int
	entries []*MapEntry
	kt, vt  types.Type
}

type ChanObj struct {
	id     int
	buf    []Value
	closed bool
	cap    int
	elem   types.Type
}

// RangeIter implements ssa.Range/ssa.Next for maps and strings.
type RangeIter struct {
	m    *MapObj
	pos  int
	s    StrV
	isSt bool
	mc   mapCursor
}

// mapCursor is the one iteration order both map iterators (native range, reflect.MapIter) use:
// the entries present when the iteration started in insertion order, but an entry created
// during the iteration is produced next (the specification allows it to be produced or skipped;
// producing it at once is the choice that exposes iterators which count or snapshot).
type mapCursor struct {
	started bool
	n0      int // entries when the iteration started
	pos     int // next original entry
	extra   int // next entry created during the iteration
}

// next returns the next live entry, or nil.
func (c *mapCursor) next(mo *MapObj) *MapEntry {
	if mo == nil {
		return nil
	}
	if !c.started {
		c.started, c.n0, c.extra = true, len(mo.entries), len(mo.entries)
	}
	for c.extra < len(mo.entries) {
		e := mo.entries[c.extra]
		c.extra++
		if !e.deleted {
			return e
		}
	}
	for c.pos < c.n0 {
		e := mo.entries[c.pos]
		c.pos++
		if !e.deleted {
			return e
		}
	}
	return nil
}

// CoHandle is a reference-semantics generator instance (source world only).
type CoHandle struct {
	id      int
	fn      *ssa.Function
	args    []Value
	binds   []Value
	thread  *Thread
	started bool
	done    bool
	running bool
	current Value
	elem    types.Type
	onYield func(ok bool)
}

// reflect intrinsics
type ReflectVal struct{ v Value; t types.Type }
type ReflectMapIter struct {
	m   *MapObj
	pos int // unused (kept for the exhausted / not-started distinction): -1 before first
	mc  mapCursor
	cur *MapEntry
}

// PanicV is a run-time panic (class) or an explicit panic value.
type PanicV struct {
	class string // "" for explicit panic(v)
	v     Value  // interface value for explicit panics
}

func (m *Machine) strConst(s string) StrV {
	b := make([]*Term, len(s))
	for i := 0; i < len(s); i++ {
		b[i] = m.tt.BV(8, uint64(s[i]))
	}
	return StrV{b}
}

func (s StrV) concrete() (string, bool) {
	var sb strings.Builder
	for _, t := range s.b {
		if !t.IsConst() {
			return "", false
		}
		sb.WriteByte(byte(t.cval))
	}
	return sb.String(), true
}

var sizes = types.SizesFor("gc", "amd64")

func widthOf(t types.Type) (w int, signed bool, ok bool) {
	b, isB := t.Underlying().(*types.Basic)
	if !isB {
		return 0, false, false
	}
	info := b.Info()
	if info&types.IsBoolean != 0 {
		return 0, false, true
	}
	if info&types.IsInteger != 0 {
		k := b.Kind()
		if k == types.UntypedInt || k == types.UntypedRune {
			if k == types.UntypedRune {
				return 32, true, true
			}
			return 64, true, true
		}
		return int(sizes.Sizeof(b)) * 8, info&types.IsUnsigned == 0, true
	}
	return 0, false, false
}

func isString(t types.Type) bool {
	b, ok := t.Underlying().(*types.Basic)
	return ok && b.Info()&types.IsString != 0
}

func (m *Machine) newCell(t types.Type) *Cell {
	m.cellID++
	c := &Cell{id: m.cellID, typ: t}
	switch u := t.Underlying().(type) {
	case *types.Struct:
		c.sub = make([]*Cell, u.NumFields())
		for i := range c.sub {
			c.sub[i] = m.newCell(u.Field(i).Type())
		}
	case *types.Array:
		c.sub = make([]*Cell, int(u.Len()))
		for i := range c.sub {
			c.sub[i] = m.newCell(u.Elem())
		}
	default:
		c.v = m.zero(t)
	}
	return c
}

func (m *Machine) newArrayCell(elem types.Type, n int) *Cell {
	m.cellID++
	c := &Cell{id: m.cellID, typ: types.NewArray(elem, int64(n))}
	c.sub = make([]*Cell, n)
	for i := range c.sub {
		c.sub[i] = m.newCell(elem)
	}
	return c
}

func (m *Machine) zero(t types.Type) Value {
	switch u := t.Underlying().(type) {
	case *types.Basic:
		if w, _, ok := widthOf(u); ok {
			if w == 0 {
				return m.tt.Bool(false)
			}
			return m.tt.BV(w, 0)
		}
		if u.Info()&types.IsString != 0 {
			return StrV{}
		}
		if u.Kind() == types.UnsafePointer || u.Kind() == types.UntypedNil {
			return (*Cell)(nil)
		}
		m.unsupported("zero value of basic type " + u.String())
	case *types.Pointer:
		return (*Cell)(nil)
	case *types.Struct:
		s := make(StructV, u.NumFields())
		for i := range s {
			s[i] = m.zero(u.Field(i).Type())
		}
		return s
	case *types.Array:
		a := make(ArrayV, int(u.Len()))
		for i := range a {
			a[i] = m.zero(u.Elem())
		}
		return a
	case *types.Slice:
		return SliceV{elem: u.Elem()}
	case *types.Interface:
		return IfaceV{}
	case *types.Signature:
		return (*Closure)(nil)
	case *types.Map:
		return (*MapObj)(nil)
	case *types.Chan:
		return (*ChanObj)(nil)
	case *types.Tuple:
		tv := make(TupleV, u.Len())
		for i := range tv {
			tv[i] = m.zero(u.At(i).Type())
		}
		return tv
	}
	m.unsupported("zero value of type " + t.String())
	return nil
}

func (m *Machine) load(c *Cell) Value {
	if c.sub != nil {
		if _, isArr := c.typ.Underlying().(*types.Array); isArr {
			a := make(ArrayV, len(c.sub))
			for i, s := range c.sub {
				a[i] = m.load(s)
			}
			return a
		}
		s := make(StructV, len(c.sub))
		for i, sc := range c.sub {
			s[i] = m.load(sc)
		}
		return s
	}
	if _, isArr := c.typ.Underlying().(*types.Array); isArr {
		return ArrayV{}
	}
	if _, isSt := c.typ.Underlying().(*types.Struct); isSt {
		return StructV{}
	}
	m.touch(c, false)
	return c.v
}

func (m *Machine) store(c *Cell, v Value) {
	if c.sub != nil {
		switch vv := v.(type) {
		case StructV:
			for i, sc := range c.sub {
				m.store(sc, vv[i])
			}
		case ArrayV:
			for i, sc := range c.sub {
				m.store(sc, vv[i])
			}
		default:
			panic(fmt.Sprintf("store: aggregate cell gets %T", v))
		}
		return
	}
	switch v.(type) {
	case StructV, ArrayV:
		return // zero-sized aggregate
	}
	m.touch(c, true)
	c.v = v
}

// touch records the footprint of the current actor (C14).
func (m *Machine) touch(c *Cell, write bool) {
	if m.actor == 0 {
		return
	}
	bit := uint32(1) << uint(m.actor)
	if write {
		c.wr |= bit
	} else {
		c.rd |= bit
	}
	if !m.trackedSet[c] {
		m.trackedSet[c] = true
		m.tracked = append(m.tracked, c)
	}
}

// mergeValues builds ite(cond, a, b) over scalar leaves of structurally equal values.
func (m *Machine) mergeValues(c *Term, a, b Value) (Value, bool) {
	switch x := a.(type) {
	case *Term:
		y, ok := b.(*Term)
		if !ok || x.W != y.W {
			return nil, false
		}
		return m.tt.Ite(c, x, y), true
	case StructV:
		y, ok := b.(StructV)
		if !ok || len(x) != len(y) {
			return nil, false
		}
		r := make(StructV, len(x))
		for i := range x {
			v, ok := m.mergeValues(c, x[i], y[i])
			if !ok {
				return nil, false
			}
			r[i] = v
		}
		return r, true
	case ArrayV:
		y, ok := b.(ArrayV)
		if !ok || len(x) != len(y) {
			return nil, false
		}
		r := make(ArrayV, len(x))
		for i := range x {
			v, ok := m.mergeValues(c, x[i], y[i])
			if !ok {
				return nil, false
			}
			r[i] = v
		}
		return r, true
	case StrV:
		y, ok := b.(StrV)
		if !ok || len(x.b) != len(y.b) {
			return nil, false
		}
		r := make([]*Term, len(x.b))
		for i := range r {
			r[i] = m.tt.Ite(c, x.b[i], y.b[i])
		}
		return StrV{r}, true
	}
	return nil, false
}

func typeName(t types.Type) string {
	if t == nil {
		return "nil"
	}
	return types.TypeString(t, func(*types.Package) string { return "" })
}
