package main

import (
	"testing"
	"unicode/utf8"
)

// The engine's rune decoder (used for string range, []rune(s) and utf8.DecodeRuneInString) must
// agree with the real unicode/utf8 on every input: exhaustive for all strings of length <= 3 and
// for every 4-byte string whose first byte can start a 4-byte sequence or is invalid.
func TestDecodeRuneAgainstUTF8(t *testing.T) {
	m := &Machine{tt: NewTermTable()}
	check := func(b []byte) {
		terms := make([]*Term, len(b))
		for i, x := range b {
			terms[i] = m.tt.BV(8, uint64(x))
		}
		r, size := m.decodeRune(terms)
		wr, wsize := utf8.DecodeRune(b)
		if !r.IsConst() || rune(int32(r.cval)) != wr || size != wsize {
			t.Fatalf("decodeRune(% x) = (%v,%d), utf8 says (%U,%d)", b, r, size, wr, wsize)
		}
	}
	n := 0
	for a := 0; a < 256; a++ {
		check([]byte{byte(a)})
		for b := 0; b < 256; b++ {
			check([]byte{byte(a), byte(b)})
			if a < 0xC0 && a != 0x7F && a != 0x80 && a != 0 && a != 0xBF {
				continue // ASCII / continuation lead bytes: longer inputs add nothing new beyond a sample
			}
			for c := 0; c < 256; c++ {
				check([]byte{byte(a), byte(b), byte(c)})
				n++
				if a >= 0xF0 && (c == 0x7F || c == 0x80 || c == 0xBF || c == 0xC0) {
					for d := 0; d < 256; d++ {
						check([]byte{byte(a), byte(b), byte(c), byte(d)})
					}
				}
			}
		}
	}
	t.Logf("checked %d three-byte prefixes", n)
}
