package main

import (
	"fmt"
	"os"
	"runtime/debug"
	"go/types"
	"sort"
	"time"

	"golang.org/x/tools/go/ssa"
)

// DriverSpec names one harness entry. Two-world drivers have a reference function (source
// package, co API under coroutine semantics) and an implementation function (generated package,
// plain execution); single-world harnesses only have Impl (or only Ref).
type DriverSpec struct {
	Name    string
	Ref     *ssa.Function
	Impl    *ssa.Function
	RefPkg  *ssa.Package
	ImplPkg *ssa.Package
	// RefPlain: the reference side is ordinary Go too (no coroutine intrinsics)
	RefPlain bool
}

type PathSample struct {
	Decisions int                 `json:"decisions"`
	Model     map[string]int64    `json:"model,omitempty"`
	Logs      map[string][]string `json:"logs,omitempty"`
}

type FailureOut struct {
	AssertID int                 `json:"assert_id"`
	Kind     string              `json:"kind"`
	Msg      string              `json:"msg"`
	Model    map[string]int64    `json:"model"`
	Logs     map[string][]string `json:"logs"`
}

type DriverResult struct {
	Name         string         `json:"name"`
	Status       string         `json:"status"` // holds | violated | undecided
	Paths        int            `json:"paths"`
	Completed    int            `json:"completed"`
	Infeasible   int            `json:"infeasible"`
	Aborted      map[string]int `json:"aborted,omitempty"`
	AbortMsgs    []string       `json:"abort_msgs,omitempty"`
	Inconclusive []string       `json:"inconclusive,omitempty"`
	Failures     []FailureOut   `json:"failures,omitempty"`
	NFailures    int            `json:"n_failures"`
	Steps        int            `json:"steps"`
	Branches     int            `json:"branches"`
	Asserts      int            `json:"asserts_proved"`
	LogQueries   int            `json:"log_queries"`
	Queries      int            `json:"queries"`
	QSat         int            `json:"q_sat"`
	QUnsat       int            `json:"q_unsat"`
	QUnknown     int            `json:"q_unknown"`
	SolverS      float64        `json:"solver_s"`
	WallS        float64        `json:"wall_s"`
	MaxDepth     int            `json:"max_depth"`
	TraceShapes  int            `json:"trace_shapes"`
	Samples      []PathSample   `json:"samples,omitempty"`
	TrackedCells int            `json:"tracked_cells"`
}

type Limits struct {
	Budget   int           // instructions per path
	MaxPaths int           // paths per driver
	Wall     time.Duration // per driver
	Samples  int           // completed paths for which a model + concrete logs are kept
}

type Worker struct {
	m          *Machine
	lim        Limits
	wantSample bool
	restarts   int
	sample     *PathSample
}

func signedModel(model map[string]uint64) map[string]int64 {
	out := map[string]int64{}
	for k, v := range model {
		w := 64
		if len(k) > 2 && k[:2] == "nb" {
			w = 1
			out[vecKey(k)] = int64(v & 1)
			continue
		}
		fmt.Sscanf(k, "nd%d_", &w)
		out[vecKey(k)] = sext(v, w)
	}
	return out
}

// vecKey turns an SMT variable name (nd64_<site>_<occ> / nb_<site>_<occ>) into the "site:occ"
// key of the native nondet vector.
func vecKey(name string) string {
	var w, site, occ int
	if n, _ := fmt.Sscanf(name, "nd%d_%d_%d", &w, &site, &occ); n == 3 {
		return fmt.Sprintf("%d:%d", site, occ)
	}
	if n, _ := fmt.Sscanf(name, "nb_%d_%d", &site, &occ); n == 2 {
		return fmt.Sprintf("%d:%d", site, occ)
	}
	return name
}

func logsOut(l map[int][]string) map[string][]string {
	out := map[string][]string{}
	for k, v := range l {
		out[fmt.Sprint(k)] = v
	}
	return out
}

func (w *Worker) runEntry(pkg *ssa.Package, fn *ssa.Function, world, log int, singleWorld bool) {
	m := w.m
	m.world = world
	m.curLog = log
	m.occ = map[int]int{}
	m.actor = 0
	m.main = &Thread{}
	m.cur = m.main
	m.uncaught = nil
	if pkg != nil {
		if init := pkg.Func("init"); init != nil {
			m.inited[pkg] = true
			m.pushFrame(init, nil, nil, nil)
			m.run()
			m.main = &Thread{}
			m.cur = m.main
		}
	}
	if m.uncaught == nil {
		m.pushFrame(fn, nil, nil, nil)
		m.run()
	}
	if p := m.uncaught; p != nil && singleWorld {
		// a harness that panics has not established its assertion: that is a failure of its own
		r, model := m.model(m.pathVars)
		desc := "explicit panic"
		if p.class != "" {
			desc = "run-time panic: " + p.class
		}
		if r == Sat {
			m.recordFailure(-2, "uncaught-panic", desc, model)
		} else {
			m.inconclusive = append(m.inconclusive, "uncaught panic but no model")
		}
	}
	if p := m.uncaught; p != nil {
		var n *EvNode
		if p.class != "" {
			n = &EvNode{kind: "opaque", name: "uncaught rt:" + p.class}
		} else {
			n = &EvNode{kind: "struct", name: "uncaught", kids: []*EvNode{m.evNode(p.v, nil)}}
		}
		m.emit(log, 6, n)
	}
}

func (w *Worker) runPath(spec *DriverSpec, prefix []int) (abort *pathAbort) {
	m := w.m
	m.resetPath(prefix)
	m.sol.Push()
	defer m.sol.Pop()
	defer func() {
		if r := recover(); r != nil {
			if pa, ok := r.(pathAbort); ok {
				abort = &pa
				return
			}
			panic(r)
		}
	}()
	if spec.Ref != nil {
		world := 0
		if spec.RefPlain {
			world = 1
		}
		w.runEntry(spec.RefPkg, spec.Ref, world, 0, spec.Impl == nil)
	}
	if spec.Impl != nil {
		log := 1
		if spec.Ref == nil {
			log = 0 // single-world harness: the default log is 0
		}
		w.runEntry(spec.ImplPkg, spec.Impl, 1, log, spec.Ref == nil)
	}
	if spec.Ref != nil && spec.Impl != nil {
		m.assertSameLogs(0, 1, -1)
	}
	w.sample = nil
	if w.wantSample {
		// reachability witness + concrete sample: a model of the final path condition
		r, model := m.model(m.pathVars)
		if r == Sat {
			w.sample = &PathSample{len(m.decided), signedModel(model), logsOut(m.renderLogs(model))}
		}
	}
	return nil
}

func (w *Worker) runDriver(spec *DriverSpec) (res DriverResult) {
	m := w.m
	t0 := time.Now()
	res.Name = spec.Name
	res.Aborted = map[string]int{}
	w.restarts = 0
	m.sol.Reset()
	m.tt = NewTermTable()
	q0, s0, u0, k0, st0 := m.sol.Queries, m.sol.NSat, m.sol.NUnsat, m.sol.NUnknown, m.sol.Time
	m.branches, m.assertsProved, m.logQueries = 0, 0, 0
	shapes := map[string]bool{}
	work := [][]int{nil}
	m.deadline = t0.Add(w.lim.Wall)
	defer func() {
		if r := recover(); r != nil {
			res.Status = "undecided"
			res.AbortMsgs = append(res.AbortMsgs, fmt.Sprintf("engine panic: %v", r))
			if os.Getenv("GOCOSYM_TRACE") != "" {
				fmt.Fprintf(os.Stderr, "engine panic in %s: %v\n%s\n", spec.Name, r, debug.Stack())
			}
			res.Aborted["engine-panic"]++
		}
		res.Queries = m.sol.Queries - q0
		res.QSat, res.QUnsat, res.QUnknown = m.sol.NSat-s0, m.sol.NUnsat-u0, m.sol.NUnknown-k0
		res.SolverS = (m.sol.Time - st0).Seconds()
		res.WallS = time.Since(t0).Seconds()
		res.Branches, res.Asserts, res.LogQueries = m.branches, m.assertsProved, m.logQueries
		res.TraceShapes = len(shapes)
	}()
	for len(work) > 0 {
		if res.Paths >= w.lim.MaxPaths {
			res.Aborted["path-budget"]++
			res.AbortMsgs = append(res.AbortMsgs, fmt.Sprintf("more than %d paths", w.lim.MaxPaths))
			break
		}
		if time.Since(t0) > w.lim.Wall {
			res.Aborted["wall-budget"]++
			res.AbortMsgs = append(res.AbortMsgs, "driver wall-clock budget exceeded")
			break
		}
		if m.sol.Dead {
			// the watchdog killed the solver: start a fresh one (all definitions are re-sent lazily)
			old := m.sol
			old.Close()
			ns, err := NewSolver(old.kind, nil)
			if err != nil {
				res.Aborted["solver-restart-failed"]++
				break
			}
			ns.QueryTimeout = old.QueryTimeout
			ns.Queries, ns.NSat, ns.NUnsat, ns.NUnknown, ns.Time, ns.Timeouts = old.Queries, old.NSat, old.NUnsat, old.NUnknown, old.Time, old.Timeouts
			m.sol = ns
			w.restarts++
			if w.restarts > 3 {
				res.Aborted["solver-timeout"]++
				res.AbortMsgs = append(res.AbortMsgs, "too many solver restarts; remaining paths not explored")
				break
			}
		}
		prefix := work[len(work)-1]
		work = work[:len(work)-1]
		w.wantSample = len(res.Samples) < w.lim.Samples
		abort := w.runPath(spec, prefix)
		res.Paths++
		res.Steps += m.steps
		if m.maxDepth > res.MaxDepth {
			res.MaxDepth = m.maxDepth
		}
		work = append(work, m.pending...)
		for _, f := range m.failures {
			res.NFailures++
			if len(res.Failures) >= 10 {
				continue
			}
			res.Failures = append(res.Failures, FailureOut{f.AssertID, f.Kind, f.Msg, signedModel(f.Model), logsOut(f.Logs)})
		}
		res.Inconclusive = append(res.Inconclusive, m.inconclusive...)
		if abort != nil {
			if abort.kind == "infeasible" {
				res.Infeasible++
				continue
			}
			res.Aborted[abort.kind]++
			if len(res.AbortMsgs) < 5 {
				res.AbortMsgs = append(res.AbortMsgs, abort.kind+": "+abort.msg)
			}
			continue
		}
		res.Completed++
		// trace shape = tags+shapes of all logs
		sh := ""
		keys := []int{}
		for l := range m.logs {
			keys = append(keys, l)
		}
		sort.Ints(keys)
		for _, l := range keys {
			sh += fmt.Sprintf("|%d:", l)
			for _, e := range m.logs[l] {
				sh += fmt.Sprintf("%d%s,", e.Tag, e.Shape)
			}
		}
		shapes[sh] = true
		if w.sample != nil {
			res.Samples = append(res.Samples, *w.sample)
		}
		res.TrackedCells += len(m.tracked)
	}
	switch {
	case len(res.Failures) > 0:
		res.Status = "violated"
	case len(res.Aborted) > 0 || len(res.Inconclusive) > 0 || res.Completed == 0:
		res.Status = "undecided"
		if res.Completed == 0 && len(res.Aborted) == 0 {
			res.AbortMsgs = append(res.AbortMsgs, "no feasible path reaches the end of the driver (vacuous)")
		}
	default:
		res.Status = "holds"
	}
	return
}

// footprintConflicts lists cells written by one actor and touched by another (C14).
func (m *Machine) footprintConflicts() []string {
	var out []string
	for _, c := range m.tracked {
		if c.wr == 0 {
			continue
		}
		all := c.wr | c.rd
		if all&(all-1) != 0 { // more than one actor bit
			out = append(out, fmt.Sprintf("cell %d %s (%s): writers %b readers %b", c.id, c.name, typeName(c.typ), c.wr, c.rd))
		}
	}
	return out
}

func newRtErrType() types.Type {
	return types.NewNamed(types.NewTypeName(0, nil, "runtimeError", nil), types.NewStruct(nil, nil), nil)
}
