package main

import (
	"fmt"
	"go/types"
	"strconv"
	"strings"

	"golang.org/x/tools/go/ssa"
)

// EvNode is a structural logged value: concrete structure, symbolic scalar leaves.
type EvNode struct {
	kind  string // int, bool, str, struct, nil, opaque
	name  string // type name for struct / opaque description
	term  *Term
	bytes []*Term
	kids  []*EvNode
}

func (n *EvNode) shape(sb *strings.Builder) {
	switch n.kind {
	case "int":
		fmt.Fprintf(sb, "i%d", n.term.W)
	case "bool":
		sb.WriteString("b")
	case "str":
		fmt.Fprintf(sb, "s%d", len(n.bytes))
	case "nil":
		sb.WriteString("nil")
	case "opaque":
		sb.WriteString("<" + n.name + ">")
	case "struct":
		sb.WriteString(n.name + "{")
		for i, k := range n.kids {
			if i > 0 {
				sb.WriteString(",")
			}
			k.shape(sb)
		}
		sb.WriteString("}")
	}
}

func (n *EvNode) terms(out []*Term) []*Term {
	switch n.kind {
	case "int", "bool":
		out = append(out, n.term)
	case "str":
		out = append(out, n.bytes...)
	case "struct":
		for _, k := range n.kids {
			out = k.terms(out)
		}
	}
	return out
}

// render gives the canonical text (same as verifrt.Render natively) under a model.
func (n *EvNode) render(env map[string]uint64, memo map[*Term]uint64, signedHint bool) string {
	switch n.kind {
	case "int":
		v := n.term.Eval(env, memo)
		if n.name == "u" {
			return strconv.FormatUint(v, 10)
		}
		return strconv.FormatInt(sext(v, n.term.W), 10)
	case "bool":
		if n.term.Eval(env, memo) == 1 {
			return "true"
		}
		return "false"
	case "str":
		b := make([]byte, len(n.bytes))
		for i, t := range n.bytes {
			b[i] = byte(t.Eval(env, memo))
		}
		return strconv.Quote(string(b))
	case "nil":
		return "nil"
	case "opaque":
		return "<" + n.name + ">"
	case "struct":
		var sb strings.Builder
		sb.WriteString(n.name + "{")
		for i, k := range n.kids {
			if i > 0 {
				sb.WriteString(",")
			}
			sb.WriteString(k.render(env, memo, signedHint))
		}
		sb.WriteString("}")
		return sb.String()
	}
	return "?"
}

func (m *Machine) evNode(v Value, t types.Type) *EvNode {
	switch x := v.(type) {
	case *Term:
		if x.W == 0 {
			return &EvNode{kind: "bool", term: x}
		}
		n := &EvNode{kind: "int", term: x}
		if t != nil {
			if _, signed, ok := widthOf(t); ok && !signed {
				n.name = "u"
			}
		}
		return n
	case StrV:
		return &EvNode{kind: "str", bytes: x.b}
	case IfaceV:
		if x.t == nil {
			return &EvNode{kind: "nil"}
		}
		if x.t == m.rtErrType {
			return &EvNode{kind: "opaque", name: "rt:" + x.v.(*PanicV).class}
		}
		return m.evNode(x.v, x.t)
	case StructV:
		n := &EvNode{kind: "struct", name: typeName(t)}
		st, _ := t.Underlying().(*types.Struct)
		for i, fv := range x {
			var ft types.Type
			if st != nil {
				ft = st.Field(i).Type()
			}
			n.kids = append(n.kids, m.evNode(fv, ft))
		}
		return n
	case ArrayV:
		n := &EvNode{kind: "struct", name: "arr"}
		var et types.Type
		if a, ok := t.Underlying().(*types.Array); ok {
			et = a.Elem()
		}
		for _, e := range x {
			n.kids = append(n.kids, m.evNode(e, et))
		}
		return n
	case SliceV:
		n := &EvNode{kind: "struct", name: "slice"}
		for i := 0; i < x.len; i++ {
			n.kids = append(n.kids, m.evNode(m.load(x.arr.sub[x.off+i]), x.elem))
		}
		return n
	case *Cell:
		if x == nil {
			return &EvNode{kind: "nil"}
		}
		return &EvNode{kind: "opaque", name: "ptr"}
	case nil:
		return &EvNode{kind: "nil"}
	}
	return &EvNode{kind: "opaque", name: fmt.Sprintf("%T", v)}
}

func (m *Machine) emit(log, tag int, n *EvNode) {
	var sb strings.Builder
	n.shape(&sb)
	ev := Event{Tag: tag, Shape: sb.String(), Terms: n.terms(nil)}
	ev.node = n
	m.logs[log] = append(m.logs[log], ev)
}

func (m *Machine) constInt(v Value, what string) int {
	t, ok := v.(*Term)
	if !ok || !t.IsConst() {
		m.unsupported(what + " must be concrete")
	}
	return int(sext(t.cval, t.W))
}

func (m *Machine) nondet(site int, w int) *Term {
	o := m.occ[site]
	m.occ[site] = o + 1
	var name string
	if w == 0 {
		name = fmt.Sprintf("nb_%d_%d", site, o)
	} else {
		name = fmt.Sprintf("nd%d_%d_%d", w, site, o)
	}
	t := m.tt.Var(name, w)
	if !m.varSeen[t] {
		m.varSeen[t] = true
		m.pathVars = append(m.pathVars, t)
	}
	return t
}

const rtSuffix = "/verifrt."

// intrinsic intercepts harness API functions, the co API under reference semantics, and the
// reflect calls used by seq.mapIter. Returns false when fn is to be interpreted normally.
func (m *Machine) intrinsic(fn *ssa.Function, args []Value, k func(Value)) bool {
	key := fnKey(fn)
	if i := strings.Index(key, rtSuffix); i >= 0 && !strings.HasPrefix(key, "(") {
		return m.rtIntrinsic(key[i+len(rtSuffix):], fn, args, k)
	}
	if strings.HasPrefix(key, "reflect.") || strings.HasPrefix(key, "(reflect.") || strings.HasPrefix(key, "(*reflect.") {
		return m.reflectIntrinsic(key, args, k)
	}
	if key == "(*sync.Pool).Get" || key == "(*sync.Pool).Put" {
		return m.poolIntrinsic(key, args, k)
	}
	if key == "unicode/utf8.DecodeRuneInString" {
		str := args[0].(StrV)
		if len(str.b) == 0 {
			k(TupleV{m.tt.BV(32, 0xFFFD), m.tt.BV(64, 0)})
			return true
		}
		r, size := m.decodeRune(str.b)
		k(TupleV{r, m.tt.BV(64, uint64(size))})
		return true
	}
	if m.world == 0 && strings.Contains(key, coPath) {
		switch {
		case key == coPath+".Yield":
			f := m.cur.top()
			f.pc++ // resume after the call
			v := args[0]
			// Yield[V] is instantiated from its argument: a concrete V inside an Iter[any]
			// generator is converted to the iterator's element type on delivery
			if h := m.cur.handle; h != nil {
				if _, isI := h.elem.Underlying().(*types.Interface); isI {
					if _, ok := v.(IfaceV); !ok {
						v = IfaceV{t: fn.Signature.Params().At(0).Type(), v: v}
					}
				}
			}
			m.yieldNoK(v)
			return true
		case key == coPath+".YieldFrom":
			f := m.cur.top()
			h := f.yfActive
			if h == nil {
				hh, ok := args[0].(*CoHandle)
				if !ok || hh == nil {
					panic(pathAbort{"blocked", "YieldFrom of a nil or foreign Iter"})
				}
				h = hh
				f.yfActive = h
			}
			m.resume(h, func(ok bool) {
				if ok {
					m.yieldNoK(h.current) // pc unchanged: the call is re-executed on resumption
				} else {
					f.yfActive = nil
					k(nil)
				}
			})
			return true
		case strings.HasPrefix(key, "("+coPath+".Iter") && strings.HasSuffix(key, ").MoveNext"):
			h, ok := args[0].(*CoHandle)
			if !ok || h == nil {
				panic(pathAbort{"blocked", "MoveNext on a nil or foreign Iter"})
			}
			m.resume(h, func(ok bool) { k(m.tt.Bool(ok)) })
			return true
		case strings.HasPrefix(key, "("+coPath+".Iter") && strings.HasSuffix(key, ").Current"):
			h, ok := args[0].(*CoHandle)
			if !ok || h == nil {
				panic(pathAbort{"blocked", "Current on a nil or foreign Iter"})
			}
			k(h.current)
			return true
		}
	}
	return false
}

// yieldNoK suspends the current generator activation; nothing is delivered to the yielding
// frame (Yield has no result), execution continues at its current pc when resumed.
func (m *Machine) yieldNoK(v Value) { m.yield(v) }

func (m *Machine) rtIntrinsic(name string, fn *ssa.Function, args []Value, k func(Value)) bool {
	tt := m.tt
	switch name {
	case "NondetInt":
		k(m.nondet(m.constInt(args[0], "nondet site"), 64))
	case "NondetBool":
		k(m.nondet(m.constInt(args[0], "nondet site"), 0))
	case "NondetByte":
		k(m.nondet(m.constInt(args[0], "nondet site"), 8))
	case "NondetString":
		site := m.constInt(args[0], "nondet site")
		n := m.concretize(args[1].(*Term), 0, 16)
		b := make([]*Term, n)
		for i := range b {
			b[i] = m.nondet(site, 8)
		}
		k(StrV{b})
	case "Choose":
		site := m.constInt(args[0], "nondet site")
		n := m.constInt(args[1], "Choose bound")
		v := m.nondet(site, 64)
		d, seen := m.chosen[v] // the same (site, occurrence) in the second world: same value
		if !seen {
			d = m.forkFree(v, n)
			m.chosen[v] = d
		}
		if d >= n {
			panic(pathAbort{"infeasible", "Choose bound differs between worlds"})
		}
		k(tt.BV(64, uint64(d)))
	case "Assume":
		c := args[0].(*Term)
		if !m.branchAssume(c) {
			panic(pathAbort{"infeasible", "assume"})
		}
		k(nil)
	case "Assert":
		m.checkAssert(args[0].(*Term), m.constInt(args[1], "assert id"), "")
		k(nil)
	case "SetLog":
		m.curLog = m.constInt(args[0], "log id")
		k(nil)
	case "Emit":
		m.emit(m.curLog, m.constInt(args[0], "event tag"), m.evNode(args[1], types.Typ[types.Int]))
		k(nil)
	case "EmitTo":
		m.emit(m.constInt(args[0], "log id"), m.constInt(args[1], "event tag"), m.evNode(args[2], types.Typ[types.Int]))
		k(nil)
	case "EmitAny":
		m.emit(m.curLog, m.constInt(args[0], "event tag"), m.evNode(args[1], nil))
		k(nil)
	case "EmitAnyTo":
		m.emit(m.constInt(args[0], "log id"), m.constInt(args[1], "event tag"), m.evNode(args[2], nil))
		k(nil)
	case "EmitPanic":
		tag := m.constInt(args[0], "event tag")
		r := args[1].(IfaceV)
		var n *EvNode
		switch {
		case r.t == nil:
			n = &EvNode{kind: "opaque", name: "nopanic"}
		case r.t == m.rtErrType:
			n = &EvNode{kind: "opaque", name: "rt:" + r.v.(*PanicV).class}
		default:
			n = &EvNode{kind: "struct", name: "panic", kids: []*EvNode{m.evNode(r, nil)}}
		}
		m.emit(m.curLog, tag, n)
		k(nil)
	case "AssertSameLogs":
		a, b := m.constInt(args[0], "log id"), m.constInt(args[1], "log id")
		id := m.constInt(args[2], "assert id")
		m.assertSameLogs(a, b, id)
		k(nil)
	case "AssertDepths":
		// DEPTH events (tag 8) of a log: mode 0 = all equal from the 2nd sample on,
		// mode 1 = constant increments from the 2nd increment on. Depths are concrete.
		lg := m.constInt(args[0], "log id")
		mode := m.constInt(args[1], "mode")
		id := m.constInt(args[2], "assert id")
		var ds []int64
		for _, e := range m.logs[lg] {
			if e.Tag == 8 && len(e.Terms) == 1 && e.Terms[0].IsConst() {
				ds = append(ds, int64(e.Terms[0].cval))
			}
		}
		ok := true
		if mode == 0 {
			for j := 2; j < len(ds); j++ {
				ok = ok && ds[j] == ds[1]
			}
		} else {
			for j := 3; j < len(ds); j++ {
				ok = ok && ds[j]-ds[j-1] == ds[2]-ds[1]
			}
		}
		m.checkAssertMsg(m.tt.Bool(ok), id, fmt.Sprintf("depth samples %v", ds))
		k(nil)
	case "AssertDisjointFootprints":
		id := m.constInt(args[0], "assert id")
		if bad := m.footprintConflicts(); len(bad) > 0 {
			r, model := m.model(m.pathVars)
			if r == Sat {
				m.recordFailure(id, "footprint", "heap cells written by one actor and touched by another: "+strings.Join(bad, "; "), model)
			} else {
				m.inconclusive = append(m.inconclusive, "footprint conflict but no model")
			}
		} else {
			m.assertsProved++
		}
		k(nil)
	case "Depth":
		k(tt.BV(64, uint64(m.depth())))
	case "Actor":
		m.actor = m.constInt(args[0], "actor id")
		k(nil)
	case "Reset", "ResetOcc", "SetVec", "DumpLogs", "Render", "RenderPanic":
		m.unsupported("verifrt." + name + " is native-only")
	default:
		return false // Eff, Probe, ...: plain Go
	}
	return true
}

// branchAssume adds c to the path condition; returns false if that makes the path infeasible.
func (m *Machine) branchAssume(c *Term) bool {
	if c.IsConst() {
		return c.cval == 1
	}
	// An assumption is a branch of which only the true side is explored.
	idx := m.dpos
	m.dpos++
	if idx < len(m.prefix) {
		m.decided = append(m.decided, m.prefix[idx])
		if m.prefix[idx] == 0 {
			return false
		}
		m.assume(c)
		return true
	}
	if m.check(c) == Unsat {
		m.decided = append(m.decided, 0)
		return false
	}
	m.decided = append(m.decided, 1)
	m.assume(c)
	return true
}

// poolIntrinsic models sync.Pool as a LIFO free list per pool (Get prefers a recycled object,
// which is the adversarial choice for "share no state"). The pool itself is synchronised and
// not part of any footprint; an object handed to Put is released by its owner, so the accesses
// made before the Put happen before whatever the next owner does: its footprint marks are
// cleared at Put time. Accesses of the old owner *after* the Put keep their marks and conflict
// with the new owner's.
func (m *Machine) poolIntrinsic(key string, args []Value, k func(Value)) bool {
	pc, ok := args[0].(*Cell)
	if !ok || pc == nil {
		m.unsupported("sync.Pool behind a symbolic pointer")
	}
	if m.pools == nil {
		m.pools = map[*Cell][]Value{}
	}
	if key == "(*sync.Pool).Put" {
		x := args[1]
		if iv, isI := x.(IfaceV); isI && iv.t != nil {
			if c, isC := iv.v.(*Cell); isC && c != nil {
				var clear func(c *Cell)
				clear = func(c *Cell) {
					c.wr, c.rd = 0, 0
					for _, s := range c.sub {
						clear(s)
					}
				}
				clear(c)
			}
			m.pools[pc] = append(m.pools[pc], x)
		}
		k(nil)
		return true
	}
	if items := m.pools[pc]; len(items) > 0 {
		x := items[len(items)-1]
		m.pools[pc] = items[:len(items)-1]
		k(x)
		return true
	}
	// empty pool: New must be nil (calling back into user code from here is not modelled)
	if len(pc.sub) > 0 {
		if nf := pc.sub[len(pc.sub)-1]; nf.v != nil {
			if cl, isCl := nf.v.(*Closure); isCl && cl != nil {
				m.unsupported("sync.Pool with a New function")
			}
		}
	}
	k(IfaceV{})
	return true
}

func (m *Machine) reflectIntrinsic(key string, args []Value, k func(Value)) bool {
	switch key {
	case "reflect.ValueOf":
		iv := args[0].(IfaceV)
		k(&ReflectVal{v: iv.v, t: iv.t})
	case "(reflect.Value).MapRange":
		rv := args[0].(*ReflectVal)
		mo, ok := rv.v.(*MapObj)
		if !ok {
			m.unsupported("MapRange on non-map")
		}
		k(&ReflectMapIter{m: mo, pos: -1})
	case "(*reflect.MapIter).Next":
		it := args[0].(*ReflectMapIter)
		it.cur = it.mc.next(it.m)
		it.pos = 0
		k(m.tt.Bool(it.cur != nil))
	case "(*reflect.MapIter).Key":
		it := args[0].(*ReflectMapIter)
		if it.cur == nil {
			m.rtPanic("reflect")
		}
		k(&ReflectVal{v: it.cur.k, t: it.m.kt})
	case "(*reflect.MapIter).Value":
		it := args[0].(*ReflectMapIter)
		if it.cur == nil {
			m.rtPanic("reflect")
		}
		k(&ReflectVal{v: it.cur.v, t: it.m.vt})
	case "(reflect.Value).Interface":
		rv := args[0].(*ReflectVal)
		if _, isI := rv.t.Underlying().(*types.Interface); isI {
			k(rv.v) // already an interface value (possibly nil)
		} else {
			k(IfaceV{t: rv.t, v: rv.v})
		}
	default:
		m.unsupported("reflect function " + key)
	}
	return true
}

// ---------------------------------------------------------------------------------------------
// assertions

func (m *Machine) renderLogs(model map[string]uint64) map[int][]string {
	memo := map[*Term]uint64{}
	out := map[int][]string{}
	for l, evs := range m.logs {
		for _, e := range evs {
			out[l] = append(out[l], fmt.Sprintf("(%d %s)", e.Tag, e.node.render(model, memo, true)))
		}
	}
	return out
}

func (m *Machine) recordFailure(id int, kind, msg string, model map[string]uint64) {
	m.failures = append(m.failures, Failure{
		AssertID: id, Kind: kind, Msg: msg, Model: model, Logs: m.renderLogs(model),
		Decision: append([]int{}, m.decided...),
	})
}

// checkAssertMsg is checkAssert for concrete conditions that must not end the path.
func (m *Machine) checkAssertMsg(c *Term, id int, msg string) {
	if c.IsConst() && c.cval == 1 {
		m.assertsProved++
		return
	}
	r, model := m.model(m.pathVars)
	if r == Sat {
		m.recordFailure(id, "assert", msg, model)
	} else {
		m.inconclusive = append(m.inconclusive, fmt.Sprintf("assert %d fails but no model", id))
	}
}

// checkAssert queries PC ∧ ¬c.
func (m *Machine) checkAssert(c *Term, id int, msg string) {
	if c.IsConst() && c.cval == 1 {
		m.assertsProved++
		return
	}
	nc := m.tt.Not(c)
	r, model := m.model(m.pathVars, nc)
	switch r {
	case Unsat:
		m.assertsProved++
	case Sat:
		m.recordFailure(id, "assert", msg, model)
	default:
		m.inconclusive = append(m.inconclusive, fmt.Sprintf("assert %d: solver answered unknown", id))
	}
	// continue under the assertion (if possible)
	if !c.IsConst() {
		if m.check(c) == Unsat {
			panic(pathAbort{"infeasible", "assertion never holds on this path"})
		}
		m.assume(c)
	} else {
		panic(pathAbort{"infeasible", "assertion is false on this path"})
	}
}

// logsDiffer builds the disjunction of leaf inequalities of two logs; structural mismatch is
// reported as a concrete difference.
func (m *Machine) logsDiffer(a, b []Event) (structural string, diff *Term) {
	tt := m.tt
	if len(a) != len(b) {
		n := len(a)
		if len(b) < n {
			n = len(b)
		}
		first := n
		for i := 0; i < n; i++ {
			if a[i].Tag != b[i].Tag || a[i].Shape != b[i].Shape {
				first = i
				break
			}
		}
		return fmt.Sprintf("log lengths differ: %d vs %d (first structural difference at event %d)", len(a), len(b), first), nil
	}
	diff = tt.Bool(false)
	for i := range a {
		if a[i].Tag != b[i].Tag || a[i].Shape != b[i].Shape {
			return fmt.Sprintf("event %d differs in kind: (%d %s) vs (%d %s)", i, a[i].Tag, a[i].Shape, b[i].Tag, b[i].Shape), nil
		}
		for j := range a[i].Terms {
			diff = tt.Or(diff, tt.Not(tt.Cmp("=", a[i].Terms[j], b[i].Terms[j])))
		}
	}
	return "", diff
}

func (m *Machine) assertSameLogs(a, b, id int) {
	st, diff := m.logsDiffer(m.logs[a], m.logs[b])
	if st != "" {
		// the path condition is satisfiable by construction; any model is a counterexample
		r, model := m.model(m.pathVars)
		if r == Sat {
			m.recordFailure(id, "logs-structure", st, model)
		} else {
			m.inconclusive = append(m.inconclusive, "structural log difference but no model: "+st)
		}
		return
	}
	m.logQueries++
	if diff.IsConst() && diff.cval == 0 {
		m.assertsProved++
		return
	}
	r, model := m.model(m.pathVars, diff)
	switch r {
	case Unsat:
		m.assertsProved++
	case Sat:
		m.recordFailure(id, "logs-values", "logs differ in a value", model)
	default:
		m.inconclusive = append(m.inconclusive, "log comparison: solver answered unknown")
	}
}
