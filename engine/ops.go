package main

import (
	"fmt"
	"go/token"
	"go/types"

	"golang.org/x/tools/go/ssa"
)

func (m *Machine) binop(op token.Token, a, b Value, ta, tb types.Type) Value {
	tt := m.tt
	switch op {
	case token.EQL:
		return m.equal(a, b)
	case token.NEQ:
		return tt.Not(m.equal(a, b))
	}
	if sa, ok := a.(StrV); ok {
		sb := b.(StrV)
		switch op {
		case token.ADD:
			r := make([]*Term, 0, len(sa.b)+len(sb.b))
			r = append(r, sa.b...)
			r = append(r, sb.b...)
			return StrV{r}
		case token.LSS, token.LEQ, token.GTR, token.GEQ:
			lt := m.strLess(sa, sb)
			eq := m.equal(sa, sb)
			switch op {
			case token.LSS:
				return lt
			case token.LEQ:
				return tt.Or(lt, eq)
			case token.GTR:
				return tt.Not(tt.Or(lt, eq))
			default:
				return tt.Not(lt)
			}
		}
		m.unsupported("string operator " + op.String())
	}
	x, ok1 := a.(*Term)
	y, ok2 := b.(*Term)
	if !ok1 || !ok2 {
		m.unsupported(fmt.Sprintf("binary %s on %T, %T", op, a, b))
	}
	w, signed, ok := widthOf(ta)
	if !ok {
		m.unsupported("binary operator on type " + ta.String())
	}
	if w == 0 {
		switch op {
		case token.AND, token.LAND:
			return tt.And(x, y)
		case token.OR, token.LOR:
			return tt.Or(x, y)
		}
		m.unsupported("bool operator " + op.String())
	}
	sel := func(s, u string) string {
		if signed {
			return s
		}
		return u
	}
	switch op {
	case token.ADD:
		return tt.BinBV("bvadd", x, y)
	case token.SUB:
		return tt.BinBV("bvsub", x, y)
	case token.MUL:
		return tt.BinBV("bvmul", x, y)
	case token.QUO, token.REM:
		if m.branch(tt.Cmp("=", y, tt.BV(w, 0))) {
			m.rtPanic("div-zero")
		}
		if op == token.QUO {
			return tt.BinBV(sel("bvsdiv", "bvudiv"), x, y)
		}
		return tt.BinBV(sel("bvsrem", "bvurem"), x, y)
	case token.AND:
		return tt.BinBV("bvand", x, y)
	case token.OR:
		return tt.BinBV("bvor", x, y)
	case token.XOR:
		return tt.BinBV("bvxor", x, y)
	case token.AND_NOT:
		return tt.BinBV("bvand", x, tt.BVNot(y))
	case token.SHL, token.SHR:
		_, ysigned, _ := widthOf(tb)
		if ysigned {
			if m.branch(tt.Cmp("bvslt", y, tt.BV(y.W, 0))) {
				m.rtPanic("shift")
			}
		}
		// bring the count to the width of x; counts >= 2^w saturate
		var cnt *Term
		if y.W > w {
			big := tt.Cmp("bvuge", y, tt.BV(y.W, uint64(w)))
			cnt = tt.Ite(big, tt.BV(w, uint64(w)), tt.Resize(y, w, false))
		} else {
			cnt = tt.Resize(y, w, false)
		}
		if op == token.SHL {
			return tt.BinBV("bvshl", x, cnt)
		}
		return tt.BinBV(sel("bvashr", "bvlshr"), x, cnt)
	case token.LSS:
		return tt.Cmp(sel("bvslt", "bvult"), x, y)
	case token.LEQ:
		return tt.Cmp(sel("bvsle", "bvule"), x, y)
	case token.GTR:
		return tt.Cmp(sel("bvsgt", "bvugt"), x, y)
	case token.GEQ:
		return tt.Cmp(sel("bvsge", "bvuge"), x, y)
	}
	m.unsupported("binary operator " + op.String())
	return nil
}

func (m *Machine) strLess(a, b StrV) *Term {
	tt := m.tt
	// lexicographic a < b
	n := len(a.b)
	if len(b.b) < n {
		n = len(b.b)
	}
	res := tt.Bool(len(a.b) < len(b.b))
	for i := n - 1; i >= 0; i-- {
		lt := tt.Cmp("bvult", a.b[i], b.b[i])
		eq := tt.Cmp("=", a.b[i], b.b[i])
		res = tt.Or(lt, tt.And(eq, res))
	}
	return res
}

// equal returns a Bool term for Go's == on two values of the same static type.
func (m *Machine) equal(a, b Value) *Term {
	tt := m.tt
	switch x := a.(type) {
	case *Term:
		y, ok := b.(*Term)
		if !ok {
			return tt.Bool(false)
		}
		if x.W != y.W {
			return tt.Bool(false)
		}
		return tt.Cmp("=", x, y)
	case StrV:
		y, ok := b.(StrV)
		if !ok || len(x.b) != len(y.b) {
			return tt.Bool(false)
		}
		r := tt.Bool(true)
		for i := range x.b {
			r = tt.And(r, tt.Cmp("=", x.b[i], y.b[i]))
		}
		return r
	case *Cell:
		y, ok := b.(*Cell)
		return tt.Bool(ok && x == y)
	case *SymPtr:
		m.unsupported("comparison of symbolic pointers")
	case IfaceV:
		y, ok := b.(IfaceV)
		if !ok {
			return tt.Bool(false)
		}
		if x.t == nil || y.t == nil {
			return tt.Bool(x.t == nil && y.t == nil)
		}
		if !types.Identical(x.t, y.t) {
			return tt.Bool(false)
		}
		if !types.Comparable(x.t) {
			m.rtPanic("uncomparable")
		}
		return m.equal(x.v, y.v)
	case StructV:
		y, ok := b.(StructV)
		if !ok || len(x) != len(y) {
			return tt.Bool(false)
		}
		r := tt.Bool(true)
		for i := range x {
			r = tt.And(r, m.equal(x[i], y[i]))
		}
		return r
	case ArrayV:
		y, ok := b.(ArrayV)
		if !ok || len(x) != len(y) {
			return tt.Bool(false)
		}
		r := tt.Bool(true)
		for i := range x {
			r = tt.And(r, m.equal(x[i], y[i]))
		}
		return r
	case *Closure:
		y, ok := b.(*Closure)
		return tt.Bool(ok && x == nil && y == nil || ok && x == y)
	case *MapObj:
		y, ok := b.(*MapObj)
		return tt.Bool(ok && x == y)
	case *ChanObj:
		switch y := b.(type) {
		case *ChanObj:
			return tt.Bool(x == y)
		case *CoHandle:
			return tt.Bool(x == nil && y == nil)
		}
		return tt.Bool(false)
	case *CoHandle:
		switch y := b.(type) {
		case *CoHandle:
			return tt.Bool(x == y)
		case *ChanObj:
			return tt.Bool(x == nil && y == nil)
		}
		return tt.Bool(false)
	case SliceV:
		y, ok := b.(SliceV)
		return tt.Bool(ok && x.arr == nil && y.arr == nil)
	case nil:
		return tt.Bool(b == nil)
	}
	m.unsupported(fmt.Sprintf("comparison of %T", a))
	return nil
}

func (m *Machine) convert(v Value, from, to types.Type) Value {
	tt := m.tt
	fu, tu := from.Underlying(), to.Underlying()
	if fw, fs, ok := widthOf(fu); ok && fw > 0 {
		if tw, _, ok2 := widthOf(tu); ok2 && tw > 0 {
			return tt.Resize(v.(*Term), tw, fs)
		}
		if isString(tu) {
			// string(rune)
			t := v.(*Term)
			if !t.IsConst() {
				m.unsupported("string(rune) of a symbolic rune")
			}
			return m.strConst(string(rune(sext(t.cval, t.W))))
		}
		m.unsupported(fmt.Sprintf("conversion %s -> %s", from, to))
	}
	if isString(fu) {
		s := v.(StrV)
		if isString(tu) {
			return s
		}
		if sl, ok := tu.(*types.Slice); ok {
			eb, _ := sl.Elem().Underlying().(*types.Basic)
			if eb != nil && eb.Kind() == types.Uint8 {
				arr := m.newArrayCell(sl.Elem(), len(s.b))
				for i, b := range s.b {
					arr.sub[i].v = b
				}
				return SliceV{arr: arr, len: len(s.b), cap: len(s.b), elem: sl.Elem()}
			}
			if eb != nil && eb.Kind() == types.Int32 {
				var runes []*Term
				for off := 0; off < len(s.b); {
					r, size := m.decodeRune(s.b[off:])
					runes = append(runes, r)
					off += size
				}
				arr := m.newArrayCell(sl.Elem(), len(runes))
				for i, r := range runes {
					arr.sub[i].v = r
				}
				return SliceV{arr: arr, len: len(runes), cap: len(runes), elem: sl.Elem()}
			}
		}
		m.unsupported(fmt.Sprintf("conversion %s -> %s", from, to))
	}
	if sl, ok := fu.(*types.Slice); ok {
		if isString(tu) {
			s := v.(SliceV)
			eb, _ := sl.Elem().Underlying().(*types.Basic)
			if eb != nil && eb.Kind() == types.Uint8 {
				b := make([]*Term, s.len)
				for i := 0; i < s.len; i++ {
					b[i] = m.load(s.arr.sub[s.off+i]).(*Term)
				}
				return StrV{b}
			}
			if eb != nil && eb.Kind() == types.Int32 {
				var out []byte
				for i := 0; i < s.len; i++ {
					t := m.load(s.arr.sub[s.off+i]).(*Term)
					if !t.IsConst() {
						m.unsupported("string([]rune) with symbolic runes")
					}
					out = append(out, string(rune(sext(t.cval, 32)))...)
				}
				return m.strConst(string(out))
			}
		}
		if _, ok := tu.(*types.Slice); ok {
			return v
		}
	}
	// identical underlying types (named <-> unnamed), pointer conversions etc.
	if types.Identical(fu, tu) {
		return v
	}
	m.unsupported(fmt.Sprintf("conversion %s -> %s", from, to))
	return nil
}

// decodeRune mirrors utf8.DecodeRuneInString on symbolic bytes, forking on the byte classes.
// Returns the rune (W=32) and its width. len(b) >= 1.
func (m *Machine) decodeRune(b []*Term) (*Term, int) {
	tt := m.tt
	c := func(v int) *Term { return tt.BV(8, uint64(v)) }
	bad := tt.BV(32, 0xFFFD)
	in := func(x *Term, lo, hi int) *Term {
		return tt.And(tt.Cmp("bvuge", x, c(lo)), tt.Cmp("bvule", x, c(hi)))
	}
	z := func(x *Term) *Term { return tt.Resize(x, 32, false) }
	b0 := b[0]
	if m.branch(tt.Cmp("bvult", b0, c(0x80))) {
		return z(b0), 1
	}
	if m.branch(tt.Or(tt.Cmp("bvult", b0, c(0xC2)), tt.Cmp("bvugt", b0, c(0xF4)))) {
		return bad, 1
	}
	cont := func(x *Term) *Term { return tt.BinBV("bvand", z(x), tt.BV(32, 0x3F)) }
	shl := func(x *Term, n int) *Term { return tt.BinBV("bvshl", x, tt.BV(32, uint64(n))) }
	or := func(x, y *Term) *Term { return tt.BinBV("bvor", x, y) }
	if m.branch(tt.Cmp("bvult", b0, c(0xE0))) {
		// two bytes
		if len(b) < 2 || !m.branch(in(b[1], 0x80, 0xBF)) {
			return bad, 1
		}
		r := or(shl(tt.BinBV("bvand", z(b0), tt.BV(32, 0x1F)), 6), cont(b[1]))
		return r, 2
	}
	if m.branch(tt.Cmp("bvult", b0, c(0xF0))) {
		// three bytes; second-byte range depends on b0
		if len(b) < 2 {
			return bad, 1
		}
		lo := tt.Ite(tt.Cmp("=", b0, c(0xE0)), c(0xA0), c(0x80))
		hi := tt.Ite(tt.Cmp("=", b0, c(0xED)), c(0x9F), c(0xBF))
		ok1 := tt.And(tt.Cmp("bvuge", b[1], lo), tt.Cmp("bvule", b[1], hi))
		if !m.branch(ok1) {
			return bad, 1
		}
		if len(b) < 3 || !m.branch(in(b[2], 0x80, 0xBF)) {
			return bad, 1
		}
		r := or(or(shl(tt.BinBV("bvand", z(b0), tt.BV(32, 0x0F)), 12), shl(cont(b[1]), 6)), cont(b[2]))
		return r, 3
	}
	// four bytes
	if len(b) < 2 {
		return bad, 1
	}
	lo := tt.Ite(tt.Cmp("=", b0, c(0xF0)), c(0x90), c(0x80))
	hi := tt.Ite(tt.Cmp("=", b0, c(0xF4)), c(0x8F), c(0xBF))
	ok1 := tt.And(tt.Cmp("bvuge", b[1], lo), tt.Cmp("bvule", b[1], hi))
	if !m.branch(ok1) {
		return bad, 1
	}
	if len(b) < 3 || !m.branch(in(b[2], 0x80, 0xBF)) {
		return bad, 1
	}
	if len(b) < 4 || !m.branch(in(b[3], 0x80, 0xBF)) {
		return bad, 1
	}
	r := or(or(or(shl(tt.BinBV("bvand", z(b0), tt.BV(32, 0x07)), 18), shl(cont(b[1]), 12)), shl(cont(b[2]), 6)), cont(b[3]))
	return r, 4
}

// index normalises an index term to 64 bits and checks it against n; returns the constant
// index or a symbolic in-range term.
func (m *Machine) checkIndex(idx *Term, it types.Type, n int) *Term {
	tt := m.tt
	_, signed, _ := widthOf(it)
	i64 := tt.Resize(idx, 64, signed)
	inRange := tt.Cmp("bvult", i64, tt.BV(64, uint64(n)))
	if !m.branch(inRange) {
		m.rtPanic("index")
	}
	return i64
}

func (m *Machine) indexAddr(x Value, idx *Term, it types.Type) Value {
	var cells []*Cell
	switch p := x.(type) {
	case *Cell:
		if p == nil {
			m.rtPanic("nil-deref")
		}
		cells = p.sub
	case SliceV:
		if p.arr != nil {
			cells = p.arr.sub[p.off : p.off+p.len]
		}
	default:
		m.unsupported(fmt.Sprintf("IndexAddr on %T", x))
	}
	i := m.checkIndex(idx, it, len(cells))
	if i.IsConst() {
		return cells[int(i.cval)]
	}
	return &SymPtr{cells: cells, idx: i}
}

func (m *Machine) indexValue(x Value, idx *Term, it types.Type) Value {
	switch a := x.(type) {
	case ArrayV:
		i := m.checkIndex(idx, it, len(a))
		if i.IsConst() {
			return a[int(i.cval)]
		}
		n := len(a)
		v := a[n-1]
		ok := true
		for k := n - 2; k >= 0 && ok; k-- {
			v, ok = m.mergeValues(m.tt.Cmp("=", i, m.tt.BV(64, uint64(k))), a[k], v)
		}
		if ok {
			return v
		}
		return a[m.forkIndex(i, n)]
	case StrV:
		return m.strIndex(a, idx, it)
	}
	m.unsupported(fmt.Sprintf("Index on %T", x))
	return nil
}

func (m *Machine) strIndex(s StrV, idx *Term, it types.Type) Value {
	i := m.checkIndex(idx, it, len(s.b))
	if i.IsConst() {
		return s.b[int(i.cval)]
	}
	n := len(s.b)
	v := s.b[n-1]
	for k := n - 2; k >= 0; k-- {
		v = m.tt.Ite(m.tt.Cmp("=", i, m.tt.BV(64, uint64(k))), s.b[k], v)
	}
	return v
}

// sameKey decides key equality, forking if it is symbolic.
func (m *Machine) sameKey(a, b Value) bool {
	return m.branch(m.equal(a, b))
}

func (m *Machine) mapFind(mo *MapObj, k Value) *MapEntry {
	for _, e := range mo.entries {
		if !e.deleted && m.sameKey(e.k, k) {
			return e
		}
	}
	return nil
}

func (m *Machine) mapStore(mo *MapObj, k, v Value) {
	if iv, ok := k.(IfaceV); ok && iv.t != nil && !types.Comparable(iv.t) {
		m.rtPanic("uncomparable")
	}
	if e := m.mapFind(mo, k); e != nil {
		e.v = v
		return
	}
	mo.entries = append(mo.entries, &MapEntry{k: k, v: v})
}

func (m *Machine) lookup(x Value, k Value, in *ssa.Lookup) Value {
	switch c := x.(type) {
	case StrV:
		return m.strIndex(c, k.(*Term), in.Index.Type())
	case *MapObj:
		var val Value
		found := false
		if c != nil {
			if e := m.mapFind(c, k); e != nil {
				val, found = e.v, true
			}
		}
		if !found {
			val = m.zero(in.X.Type().Underlying().(*types.Map).Elem())
		}
		if in.CommaOk {
			return TupleV{val, m.tt.Bool(found)}
		}
		return val
	}
	m.unsupported(fmt.Sprintf("Lookup on %T", x))
	return nil
}

func (m *Machine) rangeNext(it *RangeIter, in *ssa.Next) Value {
	tt := m.tt
	if it.isSt {
		if it.pos >= len(it.s.b) {
			return TupleV{tt.Bool(false), tt.BV(64, 0), tt.BV(32, 0)}
		}
		at := it.pos
		r, size := m.decodeRune(it.s.b[at:])
		it.pos += size
		return TupleV{tt.Bool(true), tt.BV(64, uint64(at)), r}
	}
	tup := in.Type().(*types.Tuple)
	if e := it.mc.next(it.m); e != nil {
		return TupleV{tt.Bool(true), e.k, e.v}
	}
	// exhausted: key/value components are zero values of their (possibly invalid) types
	zk, zv := Value(nil), Value(nil)
	if it.m != nil {
		zk, zv = m.zero(it.m.kt), m.zero(it.m.vt)
	}
	_ = tup
	return TupleV{tt.Bool(false), zk, zv}
}

func (m *Machine) sliceOp(f *Frame, x *ssa.Slice) Value {
	get := func(v ssa.Value, def int) int {
		if v == nil {
			return def
		}
		return m.concretize(m.get(f, v).(*Term), 0, 64)
	}
	switch s := m.get(f, x.X).(type) {
	case StrV:
		lo := get(x.Low, 0)
		hi := get(x.High, len(s.b))
		if lo < 0 || hi < lo || hi > len(s.b) {
			m.rtPanic("index")
		}
		return StrV{s.b[lo:hi]}
	case SliceV:
		lo := get(x.Low, 0)
		hi := get(x.High, s.len)
		mx := get(x.Max, s.cap)
		if lo < 0 || hi < lo || mx < hi || mx > s.cap {
			m.rtPanic("index")
		}
		if s.arr == nil {
			return s
		}
		return SliceV{arr: s.arr, off: s.off + lo, len: hi - lo, cap: mx - lo, elem: s.elem}
	case *Cell:
		if s == nil {
			m.rtPanic("nil-deref")
		}
		n := len(s.sub)
		lo := get(x.Low, 0)
		hi := get(x.High, n)
		mx := get(x.Max, n)
		if lo < 0 || hi < lo || mx < hi || mx > n {
			m.rtPanic("index")
		}
		elem := s.typ.Underlying().(*types.Array).Elem()
		return SliceV{arr: s, off: lo, len: hi - lo, cap: mx - lo, elem: elem}
	}
	m.unsupported(fmt.Sprintf("slice of %T", m.get(f, x.X)))
	return nil
}

func (m *Machine) builtin(f *Frame, b *ssa.Builtin, args []Value, argT []types.Type, resT types.Type) Value {
	tt := m.tt
	switch b.Name() {
	case "len":
		switch x := args[0].(type) {
		case StrV:
			return tt.BV(64, uint64(len(x.b)))
		case SliceV:
			return tt.BV(64, uint64(x.len))
		case ArrayV:
			return tt.BV(64, uint64(len(x)))
		case *Cell: // pointer to array
			if x == nil {
				return tt.BV(64, uint64(argT[0].Underlying().(*types.Pointer).Elem().Underlying().(*types.Array).Len()))
			}
			return tt.BV(64, uint64(len(x.sub)))
		case *MapObj:
			n := 0
			if x != nil {
				for _, e := range x.entries {
					if !e.deleted {
						n++
					}
				}
			}
			return tt.BV(64, uint64(n))
		case *ChanObj:
			if x == nil {
				return tt.BV(64, 0)
			}
			return tt.BV(64, uint64(len(x.buf)))
		}
	case "cap":
		switch x := args[0].(type) {
		case SliceV:
			return tt.BV(64, uint64(x.cap))
		case ArrayV:
			return tt.BV(64, uint64(len(x)))
		case *ChanObj:
			if x == nil {
				return tt.BV(64, 0)
			}
			return tt.BV(64, uint64(x.cap))
		}
	case "append":
		s := args[0].(SliceV)
		var add []Value
		switch e := args[1].(type) {
		case SliceV:
			for i := 0; i < e.len; i++ {
				add = append(add, m.load(e.arr.sub[e.off+i]))
			}
		case StrV:
			for _, t := range e.b {
				add = append(add, t)
			}
		default:
			m.unsupported(fmt.Sprintf("append of %T", e))
		}
		if len(add) == 0 {
			return s
		}
		elem := s.elem
		if elem == nil {
			elem = argT[0].Underlying().(*types.Slice).Elem()
		}
		n := s.len + len(add)
		if s.arr != nil && n <= s.cap {
			for i, v := range add {
				m.store(s.arr.sub[s.off+s.len+i], v)
			}
			return SliceV{arr: s.arr, off: s.off, len: n, cap: s.cap, elem: elem}
		}
		nc := s.cap * 2
		if nc < n {
			nc = n
		}
		arr := m.newArrayCell(elem, nc)
		for i := 0; i < s.len; i++ {
			m.store(arr.sub[i], m.load(s.arr.sub[s.off+i]))
		}
		for i, v := range add {
			m.store(arr.sub[s.len+i], v)
		}
		return SliceV{arr: arr, off: 0, len: n, cap: nc, elem: elem}
	case "copy":
		d := args[0].(SliceV)
		var src []Value
		switch e := args[1].(type) {
		case SliceV:
			for i := 0; i < e.len; i++ {
				src = append(src, m.load(e.arr.sub[e.off+i]))
			}
		case StrV:
			for _, t := range e.b {
				src = append(src, t)
			}
		}
		n := len(src)
		if d.len < n {
			n = d.len
		}
		for i := 0; i < n; i++ {
			m.store(d.arr.sub[d.off+i], src[i])
		}
		return tt.BV(64, uint64(n))
	case "delete":
		mo := args[0].(*MapObj)
		if mo != nil {
			if e := m.mapFind(mo, args[1]); e != nil {
				e.deleted = true
			}
		}
		return nil
	case "close":
		ch := args[0].(*ChanObj)
		if ch == nil || ch.closed {
			m.rtPanic("closed-chan")
		}
		ch.closed = true
		return nil
	case "print", "println":
		return nil
	case "recover":
		t := m.cur
		n := len(t.frames)
		if n >= 2 && t.frames[n-1].isDefer && t.frames[n-2].state == stPanicking && t.panicVal != nil {
			p := t.panicVal
			t.panicVal = nil
			t.frames[n-2].state = stRecovered
			if p.class != "" {
				return IfaceV{t: m.rtErrType, v: p}
			}
			return p.v
		}
		return IfaceV{}
	case "panic":
		m.raise(&PanicV{v: args[0].(IfaceV)})
	case "min", "max":
		_, signed, ok := widthOf(argT[0])
		if !ok {
			m.unsupported("min/max on non-integer")
		}
		r := args[0].(*Term)
		for _, a := range args[1:] {
			y := a.(*Term)
			var c *Term
			if b.Name() == "min" {
				if signed {
					c = tt.Cmp("bvslt", y, r)
				} else {
					c = tt.Cmp("bvult", y, r)
				}
			} else {
				if signed {
					c = tt.Cmp("bvsgt", y, r)
				} else {
					c = tt.Cmp("bvugt", y, r)
				}
			}
			r = tt.Ite(c, y, r)
		}
		return r
	case "ssa:wrapnilchk":
		if c, ok := args[0].(*Cell); ok && c == nil {
			m.rtPanic("nil-deref")
		}
		return args[0]
	}
	m.unsupported("builtin " + b.Name() + fmt.Sprintf(" on %T", args[0]))
	return nil
}
