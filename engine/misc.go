package main

import (
	"fmt"
	"go/ast"
	"go/format"
	"go/parser"
	"go/token"
	"os"
	"strconv"
	"strings"
)

// cmdFixImports removes imports whose name is not used in the file (needed for the
// unoptimised stage output, which still imports the co package it no longer references).
func cmdFixImports(files []string) {
	for _, fn := range files {
		fset := token.NewFileSet()
		f, err := parser.ParseFile(fset, fn, nil, parser.ParseComments)
		if err != nil {
			fmt.Fprintln(os.Stderr, "fiximports:", err)
			continue
		}
		used := map[string]bool{}
		ast.Inspect(f, func(n ast.Node) bool {
			if se, ok := n.(*ast.SelectorExpr); ok {
				if id, ok := se.X.(*ast.Ident); ok {
					used[id.Name] = true
				}
			}
			return true
		})
		changed := false
		for _, d := range f.Decls {
			gd, ok := d.(*ast.GenDecl)
			if !ok || gd.Tok != token.IMPORT {
				continue
			}
			var keep []ast.Spec
			for _, s := range gd.Specs {
				is := s.(*ast.ImportSpec)
				path, _ := strconv.Unquote(is.Path.Value)
				name := path[strings.LastIndex(path, "/")+1:]
				if is.Name != nil {
					name = is.Name.Name
				}
				if path == "github.com/goghcrow/go-co" && name != "_" && name != "." && !used[name] {
					changed = true
					continue
				}
				if path == "github.com/goghcrow/go-co" && name == "." {
					// dot import: unused if no identifier resolves to it; the rewriter has replaced
					// every use, so drop it
					changed = true
					continue
				}
				keep = append(keep, s)
			}
			gd.Specs = keep
		}
		if changed {
			var sb strings.Builder
			if err := format.Node(&sb, fset, f); err == nil {
				os.WriteFile(fn, []byte(sb.String()), 0o644)
			}
		}
	}
}

func cmdSelfTest(argv []string) {
	fmt.Println("selftest: not implemented yet")
}
