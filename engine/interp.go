package main

import (
	"fmt"
	"go/ast"
	"go/constant"
	"go/token"
	"go/types"
	"strings"
	"time"

	"golang.org/x/tools/go/ssa"
	"golang.org/x/tools/go/types/typeutil"
)

const (
	stNormal = iota
	stPanicking
	stRecovered
)

type deferred struct {
	callee  Value // *Closure, or nil when builtin != nil
	builtin *ssa.Builtin
	args    []Value
	argT    []types.Type
}

type Frame struct {
	fn        *ssa.Function
	env       map[ssa.Value]Value
	closure   *Closure
	block     *ssa.BasicBlock
	prev      *ssa.BasicBlock
	pc        int
	defers    []*deferred
	onReturn  func(Value)
	state     int
	isDefer   bool
	yfActive  *CoHandle
	runningDf bool
}

type Thread struct {
	frames   []*Frame
	parent   *Thread
	handle   *CoHandle
	panicVal *PanicV
}

func (t *Thread) top() *Frame {
	if len(t.frames) == 0 {
		return nil
	}
	return t.frames[len(t.frames)-1]
}

type Event struct {
	Tag   int
	Shape string  // concrete structure
	Terms []*Term // scalar leaves (symbolic or constant)
	node  *EvNode
}

type pathAbort struct {
	kind string // "infeasible", "unsupported", "budget", "blocked"
	msg  string
}

type Failure struct {
	AssertID int
	Kind     string
	Msg      string
	Model    map[string]uint64
	Logs     map[int][]string
	Decision []int
}

type Machine struct {
	prog  *ssa.Program
	tt    *TermTable
	sol   *Solver
	world int // 0 = reference semantics for the co API, 1 = plain execution

	cur  *Thread
	main *Thread

	// path state
	pcTerms  []*Term
	unsent   []*Term
	chosen   map[*Term]int
	prefix   []int
	dpos     int
	decided  []int
	pending  [][]int
	steps    int
	budget   int
	logs     map[int][]Event
	curLog   int
	occ      map[int]int
	pathVars []*Term
	varSeen  map[*Term]bool
	globals  map[*ssa.Global]*Cell
	inited   map[*ssa.Package]bool
	cellID   int
	objID    int
	uncaught *PanicV
	failures []Failure
	maxDepth int

	actor      int
	pools      map[*Cell][]Value // sync.Pool model: free list per pool object
	tracked    []*Cell
	trackedSet map[*Cell]bool

	genCache   map[*ssa.Function]bool
	allowInit  func(path string) bool
	funcsUsed  map[*ssa.Function]int // function -> instructions executed (evidence)
	lits       map[*Term]bool        // branch conditions already on the path condition
	deadline   time.Time
	rtErrType  types.Type
	branches   int
	traceInstr bool

	assertsProved int
	logQueries    int
	inconclusive  []string
}

func (m *Machine) unsupported(msg string) {
	panic(pathAbort{"unsupported", msg})
}

func (m *Machine) resetPath(prefix []int) {
	m.pcTerms = nil
	m.unsent = nil
	m.chosen = map[*Term]int{}
	m.lits = map[*Term]bool{}
	m.prefix = prefix
	m.dpos = 0
	m.decided = nil
	m.pending = nil
	m.steps = 0
	m.logs = map[int][]Event{}
	m.curLog = 0
	m.occ = map[int]int{}
	m.pathVars = nil
	m.varSeen = map[*Term]bool{}
	m.globals = map[*ssa.Global]*Cell{}
	m.inited = map[*ssa.Package]bool{}
	m.cellID = 0
	m.objID = 0
	m.uncaught = nil
	m.failures = nil
	m.actor = 0
	m.pools = nil
	m.tracked = nil
	m.trackedSet = map[*Cell]bool{}
	m.maxDepth = 0
	m.inconclusive = nil
}

// ---------------------------------------------------------------------------------------------
// path condition and forking

func (m *Machine) assume(c *Term) {
	if c.IsConst() {
		if c.cval == 0 {
			panic(pathAbort{"infeasible", "assume false"})
		}
		return
	}
	m.pcTerms = append(m.pcTerms, c)
	m.unsent = append(m.unsent, c)
	if c.op == "not" {
		m.lits[c.args[0]] = false
	} else {
		m.lits[c] = true
	}
}

// flush sends pending path-condition conjuncts to the solver (they are only needed when a
// query is made; paths that never query never talk to the solver).
func (m *Machine) flush() {
	for _, c := range m.unsent {
		m.sol.Assert(c)
	}
	m.unsent = m.unsent[:0]
}

func (m *Machine) check(extra ...*Term) SatResult {
	m.flush()
	r := m.sol.CheckWith(extra...)
	if m.sol.Dead {
		panic(pathAbort{"solver-timeout", "a query exceeded the hard per-query time limit; solver restarted"})
	}
	return r
}

func (m *Machine) model(vars []*Term, extra ...*Term) (SatResult, map[string]uint64) {
	m.flush()
	r, mod := m.sol.ModelWith(vars, extra...)
	if m.sol.Dead {
		panic(pathAbort{"solver-timeout", "a query exceeded the hard per-query time limit; solver restarted"})
	}
	return r, mod
}

// forkFree enumerates the n values of a fresh variable v (constrained only by v < n): every
// value is feasible by construction, so no solver query is needed.
func (m *Machine) forkFree(v *Term, n int) int {
	idx := m.dpos
	m.dpos++
	m.branches++
	var d int
	if idx < len(m.prefix) {
		d = m.prefix[idx]
	} else {
		d = 0
		for alt := n - 1; alt >= 1; alt-- {
			m.pending = append(m.pending, append(append([]int{}, m.decided...), alt))
		}
	}
	m.decided = append(m.decided, d)
	m.assume(m.tt.Cmp("=", v, m.tt.BV(v.W, uint64(d))))
	return d
}

// branch decides a symbolic condition, forking when both sides are feasible.
func (m *Machine) branch(c *Term) bool {
	if c.W != 0 {
		panic("branch on non-bool")
	}
	if c.IsConst() {
		return c.cval == 1
	}
	// a condition that is literally on the path condition needs neither a query nor a decision
	if v, ok := m.lits[c]; ok {
		return v
	}
	if c.op == "not" {
		if v, ok := m.lits[c.args[0]]; ok {
			return !v
		}
	}
	idx := m.dpos
	m.dpos++
	m.branches++
	if idx > 600 {
		panic(pathAbort{"budget", "more than 600 symbolic branch decisions on one path"})
	}
	if idx < len(m.prefix) {
		d := m.prefix[idx]
		m.decided = append(m.decided, d)
		if d == 1 {
			m.assume(c)
			return true
		}
		m.assume(m.tt.Not(c))
		return false
	}
	r1 := m.check(c)
	if r1 == Unsat {
		m.decided = append(m.decided, 0)
		m.assume(m.tt.Not(c))
		return false
	}
	nc := m.tt.Not(c)
	r2 := m.check(nc)
	if r2 == Unsat {
		m.decided = append(m.decided, 1)
		m.assume(c)
		return true
	}
	// both (possibly) feasible: take true now, queue false
	alt := append(append([]int{}, m.decided...), 0)
	m.pending = append(m.pending, alt)
	m.decided = append(m.decided, 1)
	m.assume(c)
	return true
}

// forkIndex concretises idx (known to be within [0,n)) by forking.
func (m *Machine) forkIndex(idx *Term, n int) int {
	if idx.IsConst() {
		return int(idx.cval)
	}
	for i := 0; i < n-1; i++ {
		if m.branch(m.tt.Cmp("=", idx, m.tt.BV(idx.W, uint64(i)))) {
			return i
		}
	}
	return n - 1
}

// concretize forks over the feasible values of t in [lo,hi]; values outside abort the path as
// unsupported (callers assume ranges first).
func (m *Machine) concretize(t *Term, lo, hi int) int {
	if t.IsConst() {
		return int(sext(t.cval, t.W))
	}
	for v := lo; v <= hi; v++ {
		if m.branch(m.tt.Cmp("=", t, m.tt.BV(t.W, uint64(int64(v))))) {
			return v
		}
	}
	m.unsupported(fmt.Sprintf("symbolic size outside [%d,%d]", lo, hi))
	return 0
}

// ---------------------------------------------------------------------------------------------
// panics

func (m *Machine) rtPanic(class string) {
	m.raise(&PanicV{class: class})
}

// raise starts unwinding in the current thread's top frame.
func (m *Machine) raise(p *PanicV) {
	t := m.cur
	t.panicVal = p
	t.top().state = stPanicking
	panic(stepAbort{})
}

type stepAbort struct{} // abandons the current instruction after a raise

// ---------------------------------------------------------------------------------------------
// evaluation of operands

func (m *Machine) get(f *Frame, v ssa.Value) Value {
	switch x := v.(type) {
	case *ssa.Const:
		return m.constVal(x)
	case *ssa.Function:
		return &Closure{fn: x}
	case *ssa.Global:
		return m.globalCell(x)
	case *ssa.FreeVar:
		for i, fv := range f.fn.FreeVars {
			if fv == x {
				return f.closure.binds[i]
			}
		}
		panic("free var not found")
	case *ssa.Builtin:
		m.unsupported("builtin used as value: " + x.Name())
	}
	r, ok := f.env[v]
	if !ok {
		panic(fmt.Sprintf("value %s (%T) not computed in %s", v.Name(), v, f.fn))
	}
	return r
}

func (m *Machine) globalCell(g *ssa.Global) *Cell {
	if c, ok := m.globals[g]; ok {
		return c
	}
	if g.Pkg != nil && !m.inited[g.Pkg] && !strings.HasPrefix(g.Name(), "init$") {
		if !m.allowInit(g.Pkg.Pkg.Path()) {
			m.unsupported("global of a package outside the initialised set: " + g.String())
		}
	}
	c := m.newCell(g.Type().(*types.Pointer).Elem())
	c.name = g.String()
	m.globals[g] = c
	return c
}

func (m *Machine) constVal(c *ssa.Const) Value {
	t := c.Type()
	if c.Value == nil {
		return m.zero(t)
	}
	if w, _, ok := widthOf(t); ok {
		if w == 0 {
			return m.tt.Bool(constant.BoolVal(c.Value))
		}
		if i, exact := constant.Int64Val(constant.ToInt(c.Value)); exact {
			return m.tt.BV(w, uint64(i))
		}
		if u, exact := constant.Uint64Val(constant.ToInt(c.Value)); exact {
			return m.tt.BV(w, u)
		}
		m.unsupported("integer constant out of range")
	}
	if isString(t) {
		return m.strConst(constant.StringVal(c.Value))
	}
	m.unsupported("constant of type " + t.String())
	return nil
}

// ---------------------------------------------------------------------------------------------
// calls

func (m *Machine) depth() int {
	d := 0
	for t := m.cur; t != nil; t = t.parent {
		d += len(t.frames)
	}
	return d
}

func (m *Machine) pushFrame(fn *ssa.Function, cl *Closure, args []Value, k func(Value)) *Frame {
	if fn.Blocks == nil {
		m.unsupported("call of function without body: " + fn.String())
	}
	f := &Frame{fn: fn, env: make(map[ssa.Value]Value, 16), closure: cl, block: fn.Blocks[0], onReturn: k}
	if len(args) != len(fn.Params) {
		panic(fmt.Sprintf("arity mismatch calling %s: %d args, %d params", fn, len(args), len(fn.Params)))
	}
	for i, p := range fn.Params {
		f.env[p] = args[i]
	}
	m.cur.frames = append(m.cur.frames, f)
	if d := m.depth(); d > m.maxDepth {
		m.maxDepth = d
		if d > 2000 {
			panic(pathAbort{"budget", "call depth > 2000"})
		}
	}
	return f
}

// callValue calls a function value.
func (m *Machine) callValue(fv Value, args []Value, k func(Value)) {
	cl, ok := fv.(*Closure)
	if !ok {
		m.unsupported(fmt.Sprintf("call of %T", fv))
	}
	if cl == nil {
		m.rtPanic("nil-deref")
	}
	m.callFunction(cl.fn, cl, args, k)
}

func (m *Machine) callFunction(fn *ssa.Function, cl *Closure, args []Value, k func(Value)) {
	if fn.Name() == "init" && fn.Pkg != nil && fn.Synthetic != "" {
		if !m.allowInit(fn.Pkg.Pkg.Path()) {
			k(nil)
			return
		}
		m.inited[fn.Pkg] = true
		m.pushFrame(fn, cl, args, k)
		return
	}
	if m.intrinsic(fn, args, k) {
		return
	}
	if m.world == 0 && m.isGenerator(fn) {
		m.objID++
		h := &CoHandle{id: m.objID, fn: fn, args: args, elem: iterElem(fn.Signature.Results().At(0).Type())}
		if cl != nil {
			h.binds = cl.binds
		}
		h.current = m.zero(h.elem)
		k(h)
		return
	}
	if fn.Blocks == nil {
		m.unsupported("call of function without body: " + fn.String())
	}
	m.pushFrame(fn, cl, args, k)
}

func (m *Machine) doCall(f *Frame, instr ssa.Value, c *ssa.CallCommon, k func(Value)) {
	args := make([]Value, 0, len(c.Args)+1)
	if c.IsInvoke() {
		recv, ok := m.get(f, c.Value).(IfaceV)
		if !ok {
			m.unsupported("invoke on non-interface value")
		}
		if recv.t == nil {
			m.rtPanic("nil-deref")
		}
		fn := m.lookupMethod(recv.t, c.Method)
		args = append(args, recv.v)
		for _, a := range c.Args {
			args = append(args, m.get(f, a))
		}
		m.callFunction(fn, nil, args, k)
		return
	}
	for _, a := range c.Args {
		args = append(args, m.get(f, a))
	}
	switch callee := c.Value.(type) {
	case *ssa.Builtin:
		argT := make([]types.Type, len(c.Args))
		for i, a := range c.Args {
			argT[i] = a.Type()
		}
		var rt types.Type
		if instr != nil {
			rt = instr.Type()
		}
		k(m.builtin(f, callee, args, argT, rt))
	case *ssa.Function:
		m.callFunction(callee, nil, args, k)
	default:
		m.callValue(m.get(f, c.Value), args, k)
	}
}

func (m *Machine) lookupMethod(t types.Type, meth *types.Func) *ssa.Function {
	if t == m.rtErrType {
		m.unsupported("method call on a run-time error value")
	}
	fn := m.prog.LookupMethod(t, meth.Pkg(), meth.Name())
	if fn == nil {
		m.unsupported(fmt.Sprintf("method %s not found on %s", meth.Name(), t))
	}
	return fn
}

func iterElem(t types.Type) types.Type {
	if n, ok := t.(*types.Named); ok && n.TypeArgs() != nil && n.TypeArgs().Len() == 1 {
		return n.TypeArgs().At(0)
	}
	if a, ok := t.(*types.Alias); ok {
		return iterElem(types.Unalias(a))
	}
	if c, ok := t.Underlying().(*types.Chan); ok {
		return c.Elem()
	}
	panic("iterElem: not an iterator type: " + t.String())
}

const coPath = "github.com/goghcrow/go-co"

func fnKey(fn *ssa.Function) string {
	o := fn
	if fn.Origin() != nil {
		o = fn.Origin()
	}
	if obj, ok := o.Object().(*types.Func); ok && obj != nil {
		return obj.FullName()
	}
	return o.String()
}

func isCoIter(t types.Type) bool {
	n, ok := types.Unalias(t).(*types.Named)
	if !ok {
		return false
	}
	o := n.Origin().Obj()
	return o.Pkg() != nil && o.Pkg().Path() == coPath && o.Name() == "Iter"
}

// isGenerator: result type is co.Iter[T] and the function's own body (nested literals excluded,
// unreachable statements included) contains a call of Yield/YieldFrom. Decided on the syntax tree
// with types.Info, like the property text says ("functions that call Yield"), and independently
// of the rewriter's collectYieldFunc.
func (m *Machine) isGenerator(fn *ssa.Function) bool {
	if r, ok := m.genCache[fn]; ok {
		return r
	}
	res := false
	sig := fn.Signature
	if sig.Results().Len() == 1 && isCoIter(sig.Results().At(0).Type()) && fn.Blocks != nil {
		o := fn
		if fn.Origin() != nil {
			o = fn.Origin()
		}
		var body *ast.BlockStmt
		switch n := o.Syntax().(type) {
		case *ast.FuncDecl:
			body = n.Body
		case *ast.FuncLit:
			body = n.Body
		}
		var info *types.Info
		if o.Pkg != nil {
			info = typeInfos[o.Pkg.Pkg]
		}
		if body != nil && info != nil {
			ast.Inspect(body, func(n ast.Node) bool {
				switch x := n.(type) {
				case *ast.FuncLit:
					return false
				case *ast.CallExpr:
					if f, ok := typeutil.Callee(info, x).(*types.Func); ok && f.Pkg() != nil && f.Pkg().Path() == coPath &&
						(f.Name() == "Yield" || f.Name() == "YieldFrom") {
						res = true
					}
				}
				return !res
			})
		}
	}
	m.genCache[fn] = res
	return res
}

// typeInfos maps a type-checked package to its types.Info (filled by the loader).
var typeInfos = map[*types.Package]*types.Info{}

// ---------------------------------------------------------------------------------------------
// coroutine plumbing (reference semantics)

func (m *Machine) resume(h *CoHandle, k func(ok bool)) {
	if h.done {
		k(false)
		return
	}
	if h.running {
		m.unsupported("generator advanced while it is running")
	}
	if !h.started {
		h.started = true
		h.thread = &Thread{handle: h}
		saved := m.cur
		m.cur = h.thread
		var cl *Closure
		if h.binds != nil {
			cl = &Closure{fn: h.fn, binds: h.binds}
		}
		m.pushFrame(h.fn, cl, h.args, nil)
		m.cur = saved
	}
	h.running = true
	h.thread.parent = m.cur
	h.onYield = k
	m.cur = h.thread
}

func (m *Machine) yield(v Value) {
	t := m.cur
	h := t.handle
	if h == nil {
		m.unsupported("Yield outside a generator activation")
	}
	h.current = v
	h.running = false
	m.cur = t.parent
	t.parent = nil
	k := h.onYield
	h.onYield = nil
	k(true)
}

// threadFinished handles a thread whose frame stack became empty.
func (m *Machine) threadFinished(t *Thread) {
	h := t.handle
	if h == nil {
		// main thread
		if t.panicVal != nil {
			m.uncaught = t.panicVal
		}
		m.cur = nil
		return
	}
	h.done = true
	h.running = false
	h.current = m.zero(h.elem)
	parent := t.parent
	t.parent = nil
	m.cur = parent
	if t.panicVal != nil {
		p := t.panicVal
		t.panicVal = nil
		parent.panicVal = p
		parent.top().state = stPanicking
		return
	}
	k := h.onYield
	h.onYield = nil
	k(false)
}

// ---------------------------------------------------------------------------------------------
// main loop

func (m *Machine) run() {
	for m.cur != nil {
		t := m.cur
		f := t.top()
		if f == nil {
			m.threadFinished(t)
			continue
		}
		m.steps++
		if m.steps > m.budget {
			panic(pathAbort{"budget", fmt.Sprintf("more than %d instructions on one path", m.budget)})
		}
		if m.steps&1023 == 0 && !m.deadline.IsZero() && time.Now().After(m.deadline) {
			panic(pathAbort{"wall-budget", "driver wall-clock budget exceeded inside a path"})
		}
		m.stepGuard(t, f)
	}
}

func (m *Machine) stepGuard(t *Thread, f *Frame) {
	defer func() {
		if r := recover(); r != nil {
			if _, ok := r.(stepAbort); ok {
				return
			}
			panic(r)
		}
	}()
	if f.state != stNormal {
		m.unwindStep(t, f)
		return
	}
	in := f.block.Instrs[f.pc]
	m.funcsUsed[f.fn]++
	m.exec(f, in)
}

func (m *Machine) popFrame(t *Thread) {
	t.frames = t.frames[:len(t.frames)-1]
}

func (m *Machine) runDeferred(f *Frame, d *deferred) {
	if d.builtin != nil {
		m.builtin(f, d.builtin, d.args, d.argT, nil)
		return
	}
	cl := d.callee.(*Closure)
	if cl == nil {
		m.rtPanic("nil-deref")
	}
	if m.intrinsic(cl.fn, d.args, func(Value) {}) {
		return
	}
	nf := m.pushFrame(cl.fn, cl, d.args, nil)
	nf.isDefer = true
}

func (m *Machine) unwindStep(t *Thread, f *Frame) {
	if n := len(f.defers); n > 0 {
		d := f.defers[n-1]
		f.defers = f.defers[:n-1]
		m.runDeferred(f, d)
		return
	}
	if f.state == stRecovered {
		f.state = stNormal
		if f.fn.Recover != nil {
			f.prev = f.block
			f.block = f.fn.Recover
			f.pc = 0
			return
		}
		m.popFrame(t)
		if f.onReturn != nil {
			var res Value
			rs := f.fn.Signature.Results()
			switch rs.Len() {
			case 0:
			case 1:
				res = m.zero(rs.At(0).Type())
			default:
				res = m.zero(rs)
			}
			f.onReturn(res)
		}
		return
	}
	// still panicking: drop the frame and continue in the caller
	m.popFrame(t)
	if nt := t.top(); nt != nil {
		nt.state = stPanicking
	}
}

func (m *Machine) jump(f *Frame, to *ssa.BasicBlock) {
	from := f.block
	// evaluate phis simultaneously
	var phis []*ssa.Phi
	var vals []Value
	for _, in := range to.Instrs {
		p, ok := in.(*ssa.Phi)
		if !ok {
			break
		}
		idx := -1
		for i, pr := range to.Preds {
			if pr == from {
				idx = i
				break
			}
		}
		phis = append(phis, p)
		vals = append(vals, m.get(f, p.Edges[idx]))
	}
	for i, p := range phis {
		f.env[p] = vals[i]
	}
	f.prev = from
	f.block = to
	f.pc = len(phis)
}

func (m *Machine) exec(f *Frame, in ssa.Instruction) {
	switch x := in.(type) {
	case *ssa.DebugRef:
		f.pc++
	case *ssa.Alloc:
		c := m.newCell(x.Type().(*types.Pointer).Elem())
		f.env[x] = c
		f.pc++
	case *ssa.Store:
		m.storePtr(m.get(f, x.Addr), m.get(f, x.Val))
		f.pc++
	case *ssa.UnOp:
		m.execUnOp(f, x)
	case *ssa.BinOp:
		f.env[x] = m.binop(x.Op, m.get(f, x.X), m.get(f, x.Y), x.X.Type(), x.Y.Type())
		f.pc++
	case *ssa.Call:
		m.doCall(f, x, &x.Call, func(res Value) {
			f.env[x] = res
			f.pc++
		})
	case *ssa.MakeClosure:
		binds := make([]Value, len(x.Bindings))
		for i, b := range x.Bindings {
			binds[i] = m.get(f, b)
		}
		m.objID++
		f.env[x] = &Closure{fn: x.Fn.(*ssa.Function), binds: binds, id: m.objID}
		f.pc++
	case *ssa.MakeInterface:
		f.env[x] = IfaceV{t: x.X.Type(), v: m.get(f, x.X)}
		f.pc++
	case *ssa.ChangeInterface:
		f.env[x] = m.get(f, x.X)
		f.pc++
	case *ssa.ChangeType:
		f.env[x] = m.get(f, x.X)
		f.pc++
	case *ssa.Convert:
		f.env[x] = m.convert(m.get(f, x.X), x.X.Type(), x.Type())
		f.pc++
	case *ssa.TypeAssert:
		m.execTypeAssert(f, x)
	case *ssa.Extract:
		f.env[x] = m.get(f, x.Tuple).(TupleV)[x.Index]
		f.pc++
	case *ssa.Field:
		f.env[x] = m.get(f, x.X).(StructV)[x.Field]
		f.pc++
	case *ssa.FieldAddr:
		switch p := m.get(f, x.X).(type) {
		case *Cell:
			if p == nil {
				m.rtPanic("nil-deref")
			}
			f.env[x] = p.sub[x.Field]
		case *SymPtr:
			cs := make([]*Cell, len(p.cells))
			for i, c := range p.cells {
				cs[i] = c.sub[x.Field]
			}
			f.env[x] = &SymPtr{cells: cs, idx: p.idx}
		default:
			m.unsupported(fmt.Sprintf("FieldAddr on %T", p))
		}
		f.pc++
	case *ssa.IndexAddr:
		f.env[x] = m.indexAddr(m.get(f, x.X), m.get(f, x.Index).(*Term), x.Index.Type())
		f.pc++
	case *ssa.Index:
		f.env[x] = m.indexValue(m.get(f, x.X), m.get(f, x.Index).(*Term), x.Index.Type())
		f.pc++
	case *ssa.Lookup:
		f.env[x] = m.lookup(m.get(f, x.X), m.get(f, x.Index), x)
		f.pc++
	case *ssa.MapUpdate:
		mo := m.get(f, x.Map).(*MapObj)
		if mo == nil {
			m.rtPanic("nil-map")
		}
		m.mapStore(mo, m.get(f, x.Key), m.get(f, x.Value))
		f.pc++
	case *ssa.MakeMap:
		mt := x.Type().Underlying().(*types.Map)
		m.objID++
		f.env[x] = &MapObj{id: m.objID, kt: mt.Key(), vt: mt.Elem()}
		f.pc++
	case *ssa.MakeSlice:
		st := x.Type().Underlying().(*types.Slice)
		n := m.concretize(m.get(f, x.Len).(*Term), 0, 16)
		c := m.concretize(m.get(f, x.Cap).(*Term), 0, 64)
		if n < 0 || c < n {
			m.rtPanic("index")
		}
		f.env[x] = SliceV{arr: m.newArrayCell(st.Elem(), c), off: 0, len: n, cap: c, elem: st.Elem()}
		f.pc++
	case *ssa.MakeChan:
		ct := x.Type().Underlying().(*types.Chan)
		n := m.concretize(m.get(f, x.Size).(*Term), 0, 64)
		m.objID++
		f.env[x] = &ChanObj{id: m.objID, cap: n, elem: ct.Elem()}
		f.pc++
	case *ssa.Send:
		ch := m.get(f, x.Chan).(*ChanObj)
		if ch == nil {
			panic(pathAbort{"blocked", "send on nil channel"})
		}
		if ch.closed {
			m.rtPanic("closed-chan")
		}
		if len(ch.buf) >= ch.cap {
			panic(pathAbort{"blocked", "send on full channel (single goroutine)"})
		}
		ch.buf = append(ch.buf, m.get(f, x.X))
		f.pc++
	case *ssa.Slice:
		f.env[x] = m.sliceOp(f, x)
		f.pc++
	case *ssa.Range:
		switch v := m.get(f, x.X).(type) {
		case *MapObj:
			f.env[x] = &RangeIter{m: v}
		case StrV:
			f.env[x] = &RangeIter{s: v, isSt: true}
		default:
			m.unsupported(fmt.Sprintf("range over %T", v))
		}
		f.pc++
	case *ssa.Next:
		f.env[x] = m.rangeNext(m.get(f, x.Iter).(*RangeIter), x)
		f.pc++
	case *ssa.Phi:
		panic("phi reached by sequential execution")
	case *ssa.If:
		c := m.get(f, x.Cond).(*Term)
		if m.branch(c) {
			m.jump(f, f.block.Succs[0])
		} else {
			m.jump(f, f.block.Succs[1])
		}
	case *ssa.Jump:
		m.jump(f, f.block.Succs[0])
	case *ssa.Return:
		var res Value
		switch len(x.Results) {
		case 0:
		case 1:
			res = m.get(f, x.Results[0])
		default:
			tv := make(TupleV, len(x.Results))
			for i, r := range x.Results {
				tv[i] = m.get(f, r)
			}
			res = tv
		}
		m.popFrame(m.cur)
		if f.onReturn != nil {
			f.onReturn(res)
		}
	case *ssa.Panic:
		v := m.get(f, x.X).(IfaceV)
		m.raise(&PanicV{v: v})
	case *ssa.Defer:
		d := &deferred{}
		c := &x.Call
		if c.IsInvoke() {
			recv := m.get(f, c.Value).(IfaceV)
			if recv.t == nil {
				m.rtPanic("nil-deref")
			}
			d.callee = &Closure{fn: m.lookupMethod(recv.t, c.Method)}
			d.args = append(d.args, recv.v)
		} else if b, ok := c.Value.(*ssa.Builtin); ok {
			d.builtin = b
		} else {
			d.callee = m.get(f, c.Value)
		}
		for _, a := range c.Args {
			d.args = append(d.args, m.get(f, a))
			d.argT = append(d.argT, a.Type())
		}
		f.defers = append(f.defers, d)
		f.pc++
	case *ssa.RunDefers:
		if n := len(f.defers); n > 0 {
			d := f.defers[n-1]
			f.defers = f.defers[:n-1]
			m.runDeferred(f, d) // pc stays: RunDefers is re-executed until the list is empty
			return
		}
		f.pc++
	case *ssa.Go:
		m.unsupported("go statement")
	case *ssa.Select:
		m.execSelect(f, x)
	default:
		m.unsupported(fmt.Sprintf("instruction %T", in))
	}
}

func (m *Machine) storePtr(p Value, v Value) {
	switch c := p.(type) {
	case *Cell:
		if c == nil {
			m.rtPanic("nil-deref")
		}
		m.store(c, v)
	case *SymPtr:
		i := m.forkIndex(c.idx, len(c.cells))
		m.store(c.cells[i], v)
	default:
		m.unsupported(fmt.Sprintf("store through %T", p))
	}
}

func (m *Machine) loadPtr(p Value) Value {
	switch c := p.(type) {
	case *Cell:
		if c == nil {
			m.rtPanic("nil-deref")
		}
		return m.load(c)
	case *SymPtr:
		n := len(c.cells)
		v := m.load(c.cells[n-1])
		ok := true
		for i := n - 2; i >= 0 && ok; i-- {
			cond := m.tt.Cmp("=", c.idx, m.tt.BV(c.idx.W, uint64(i)))
			v, ok = m.mergeValues(cond, m.load(c.cells[i]), v)
		}
		if ok {
			return v
		}
		i := m.forkIndex(c.idx, n)
		return m.load(c.cells[i])
	}
	m.unsupported(fmt.Sprintf("load through %T", p))
	return nil
}

func (m *Machine) execUnOp(f *Frame, x *ssa.UnOp) {
	v := m.get(f, x.X)
	switch x.Op {
	case token.MUL:
		f.env[x] = m.loadPtr(v)
	case token.NOT:
		f.env[x] = m.tt.Not(v.(*Term))
	case token.SUB:
		f.env[x] = m.tt.Neg(v.(*Term))
	case token.XOR:
		f.env[x] = m.tt.BVNot(v.(*Term))
	case token.ARROW:
		switch ch := v.(type) {
		case *CoHandle:
			if ch == nil {
				panic(pathAbort{"blocked", "receive from nil Iter"})
			}
			m.resume(ch, func(ok bool) {
				if x.CommaOk {
					f.env[x] = TupleV{ch.current, m.tt.Bool(ok)}
				} else {
					f.env[x] = ch.current
				}
				f.pc++
			})
			return
		case *ChanObj:
			if ch == nil {
				panic(pathAbort{"blocked", "receive from nil channel"})
			}
			var val Value
			ok := true
			if len(ch.buf) > 0 {
				val = ch.buf[0]
				ch.buf = ch.buf[1:]
			} else if ch.closed {
				val = m.zero(ch.elem)
				ok = false
			} else {
				panic(pathAbort{"blocked", "receive from empty open channel (single goroutine)"})
			}
			if x.CommaOk {
				f.env[x] = TupleV{val, m.tt.Bool(ok)}
			} else {
				f.env[x] = val
			}
		default:
			m.unsupported(fmt.Sprintf("receive from %T", v))
		}
	default:
		m.unsupported("unary " + x.Op.String())
	}
	f.pc++
}

func (m *Machine) implements(t types.Type, iface *types.Interface) bool {
	if t == m.rtErrType {
		return iface.NumMethods() == 0 || (iface.NumMethods() == 1 && iface.Method(0).Name() == "Error")
	}
	return types.Implements(t, iface)
}

func (m *Machine) execTypeAssert(f *Frame, x *ssa.TypeAssert) {
	v, isI := m.get(f, x.X).(IfaceV)
	if !isI {
		m.unsupported("type assertion on non-interface value")
	}
	var ok bool
	var res Value
	if it, isIface := x.AssertedType.Underlying().(*types.Interface); isIface {
		ok = v.t != nil && m.implements(v.t, it)
		if ok {
			res = v
		} else {
			res = IfaceV{}
		}
	} else {
		ok = v.t != nil && types.Identical(v.t, x.AssertedType)
		if ok {
			res = v.v
		} else {
			res = m.zero(x.AssertedType)
		}
	}
	if x.CommaOk {
		f.env[x] = TupleV{res, m.tt.Bool(ok)}
	} else {
		if !ok {
			m.rtPanic("type-assert")
		}
		f.env[x] = res
	}
	f.pc++
}


// execSelect: single goroutine, buffered channels. A case is ready if its receive has a buffered
// value or a closed channel, or its send has buffer space. Exactly one ready case (or none with a
// default) is deterministic; several ready cases would be a random choice in Go and end the path
// as unsupported; none ready without default blocks forever.
func (m *Machine) execSelect(f *Frame, x *ssa.Select) {
	var ready []int
	for i, st := range x.States {
		ch, _ := m.get(f, st.Chan).(*ChanObj)
		if ch == nil {
			continue // nil channel: never ready
		}
		if st.Dir == types.RecvOnly {
			if len(ch.buf) > 0 || ch.closed {
				ready = append(ready, i)
			}
		} else {
			if ch.closed || len(ch.buf) < ch.cap {
				ready = append(ready, i)
			}
		}
	}
	tup := x.Type().(*types.Tuple)
	res := make(TupleV, tup.Len())
	for i := range res {
		res[i] = m.zero(tup.At(i).Type())
	}
	switch {
	case len(ready) == 0 && !x.Blocking:
		res[0] = m.tt.BV(64, ^uint64(0)) // index -1: default
	case len(ready) == 0:
		panic(pathAbort{"blocked", "select with no ready case (single goroutine)"})
	case len(ready) > 1:
		m.unsupported("select with several ready cases (random choice in Go)")
	default:
		i := ready[0]
		st := x.States[i]
		ch := m.get(f, st.Chan).(*ChanObj)
		res[0] = m.tt.BV(64, uint64(i))
		if st.Dir == types.RecvOnly {
			ok := true
			var v Value
			if len(ch.buf) > 0 {
				v = ch.buf[0]
				ch.buf = ch.buf[1:]
			} else {
				v = m.zero(ch.elem)
				ok = false
			}
			res[1] = m.tt.Bool(ok)
			// received values follow in the order of the receive states
			pos := 2
			for j, s2 := range x.States {
				if s2.Dir != types.RecvOnly {
					continue
				}
				if j == i {
					res[pos] = v
				}
				pos++
			}
		} else {
			if ch.closed {
				m.rtPanic("closed-chan")
			}
			ch.buf = append(ch.buf, m.get(f, st.Send))
		}
	}
	f.env[x] = res
	f.pc++
}
