// Command gocosym is a small symbolic executor for Go: it interprets go/ssa (generics
// instantiated) with SMT terms for scalars and decides harness assertions / two-world log
// equivalence with an SMT solver. See /verif/DESIGN.md.
package main

import (
	"encoding/json"
	"flag"
	"fmt"
	"os"
	"regexp"
	"sort"
	"strings"
	"sync"
	"time"

	"golang.org/x/tools/go/packages"
	"golang.org/x/tools/go/ssa"
	"golang.org/x/tools/go/ssa/ssautil"
)

type pairFlag []string

func (p *pairFlag) String() string     { return strings.Join(*p, ",") }
func (p *pairFlag) Set(s string) error { *p = append(*p, s); return nil }

type PkgReport struct {
	Path   string   `json:"path"`
	Errors []string `json:"errors,omitempty"`
}

type Output struct {
	Packages      []PkgReport       `json:"packages"`
	Drivers       []DriverResult    `json:"drivers"`
	FuncsEncoded  map[string]int    `json:"functions_encoded"`
	LoadS         float64           `json:"load_s"`
	WallS         float64           `json:"wall_s"`
	Solver        string            `json:"solver"`
	Workers       int               `json:"workers"`
	Limits        map[string]any    `json:"limits"`
	SkippedPairs  map[string]string `json:"skipped_pairs,omitempty"`
	TotalQueries  int               `json:"total_queries"`
	TotalSolverS  float64           `json:"total_solver_s"`
	SolverTimeouts int              `json:"solver_timeouts"`
}

func main() {
	if len(os.Args) < 2 {
		fmt.Fprintln(os.Stderr, "usage: gocosym check|fiximports|selftest ...")
		os.Exit(2)
	}
	switch os.Args[1] {
	case "check":
		cmdCheck(os.Args[2:])
	case "fiximports":
		cmdFixImports(os.Args[2:])
	case "selftest":
		cmdSelfTest(os.Args[2:])
	default:
		fmt.Fprintln(os.Stderr, "unknown subcommand", os.Args[1])
		os.Exit(2)
	}
}

func cmdCheck(argv []string) {
	fs := flag.NewFlagSet("check", flag.ExitOnError)
	ws := fs.String("ws", ".", "workspace module directory")
	var pairs, harness, refonly pairFlag
	fs.Var(&pairs, "pair", "refPkg=implPkg (two-world); repeatable")
	fs.Var(&harness, "harness", "package with single-world harness drivers (plain execution); repeatable")
	fs.Var(&refonly, "refharness", "package with single-world drivers run under reference co semantics; repeatable")
	drv := fs.String("drivers", "^Drive_", "regexp selecting driver functions")
	jobs := fs.Int("j", 16, "workers")
	out := fs.String("out", "", "result JSON file (default stdout)")
	budget := fs.Int("budget", 200000, "SSA instructions per path")
	maxPaths := fs.Int("maxpaths", 4000, "paths per driver")
	wall := fs.Duration("wall", 120*time.Second, "wall-clock budget per driver")
	samples := fs.Int("samples", 1, "completed paths per driver for which a model and concrete logs are kept")
	solver := fs.String("solver", "z3", "z3 | z3-new | cvc5")
	record := fs.String("record", "", "write the query transcript of worker i to <file>.<i>")
	qtimeout := fs.Duration("qtimeout", 15*time.Second, "hard wall-clock limit per solver query (watchdog)")
	refPlain := fs.Bool("refplain", false, "run the reference side of -pair as plain Go (no co intrinsics): used when both sides are generated code (C07)")
	initPkgs := fs.String("init", "", "comma-separated extra package paths whose init may run")
	fs.Parse(argv)

	t0 := time.Now()
	var patterns []string
	seen := map[string]bool{}
	add := func(p string) {
		if !seen[p] {
			seen[p] = true
			patterns = append(patterns, p)
		}
	}
	type pr struct{ ref, impl string }
	var prs []pr
	for _, p := range pairs {
		i := strings.Index(p, "=")
		if i < 0 {
			fatal("bad -pair " + p)
		}
		prs = append(prs, pr{p[:i], p[i+1:]})
		add(p[:i])
		add(p[i+1:])
	}
	for _, h := range harness {
		add(h)
	}
	for _, h := range refonly {
		add(h)
	}
	cfg := &packages.Config{Mode: packages.LoadAllSyntax, Dir: *ws, Env: os.Environ()}
	pkgs, err := packages.Load(cfg, patterns...)
	if err != nil {
		fatal("load: " + err.Error())
	}
	output := Output{FuncsEncoded: map[string]int{}, Solver: *solver, Workers: *jobs, SkippedPairs: map[string]string{}}
	bad := map[string]bool{}
	byPath := map[string]*packages.Package{}
	for _, p := range pkgs {
		byPath[p.PkgPath] = p
		rep := PkgReport{Path: p.PkgPath}
		for _, e := range p.Errors {
			rep.Errors = append(rep.Errors, e.Error())
		}
		if len(p.Errors) > 0 || p.IllTyped {
			bad[p.PkgPath] = true
		}
		output.Packages = append(output.Packages, rep)
	}
	// errors in dependencies make everything unusable
	depErr := false
	packages.Visit(pkgs, nil, func(p *packages.Package) {
		if len(p.Errors) > 0 && byPath[p.PkgPath] == nil {
			depErr = true
			output.Packages = append(output.Packages, PkgReport{Path: p.PkgPath, Errors: []string{p.Errors[0].Error()}})
		}
	})
	if depErr {
		writeOut(*out, &output)
		fatal("errors in dependency packages")
	}
	var good []*packages.Package
	for _, p := range pkgs {
		if !bad[p.PkgPath] {
			good = append(good, p)
		}
	}
	for _, p := range good {
		if p.Types != nil && p.TypesInfo != nil {
			typeInfos[p.Types] = p.TypesInfo
		}
	}
	prog, spkgs := ssautil.AllPackages(good, ssa.InstantiateGenerics)
	prog.Build()
	ssaBy := map[string]*ssa.Package{}
	for i, p := range good {
		if spkgs[i] != nil {
			ssaBy[p.PkgPath] = spkgs[i]
		}
	}
	output.LoadS = time.Since(t0).Seconds()

	re := regexp.MustCompile(*drv)
	var specs []*DriverSpec
	driverNames := func(p *ssa.Package) []string {
		var ns []string
		for name, mem := range p.Members {
			if fn, ok := mem.(*ssa.Function); ok && re.MatchString(name) && fn.Signature.Params().Len() == 0 {
				ns = append(ns, name)
			}
		}
		sort.Strings(ns)
		return ns
	}
	for _, p := range prs {
		rp, ip := ssaBy[p.ref], ssaBy[p.impl]
		if rp == nil || ip == nil {
			which := p.impl
			if rp == nil {
				which = p.ref
			}
			output.SkippedPairs[p.ref+"="+p.impl] = "package does not type-check: " + which
			continue
		}
		for _, n := range driverNames(rp) {
			ifn := ip.Func(n)
			if ifn == nil {
				continue
			}
			specs = append(specs, &DriverSpec{Name: p.ref + "." + n, Ref: rp.Func(n), Impl: ifn, RefPkg: rp, ImplPkg: ip, RefPlain: *refPlain})
		}
	}
	for _, h := range harness {
		hp := ssaBy[h]
		if hp == nil {
			output.SkippedPairs[h] = "package does not type-check"
			continue
		}
		for _, n := range driverNames(hp) {
			specs = append(specs, &DriverSpec{Name: h + "." + n, Impl: hp.Func(n), ImplPkg: hp})
		}
	}
	for _, h := range refonly {
		hp := ssaBy[h]
		if hp == nil {
			output.SkippedPairs[h] = "package does not type-check"
			continue
		}
		for _, n := range driverNames(hp) {
			specs = append(specs, &DriverSpec{Name: h + "." + n, Ref: hp.Func(n), RefPkg: hp})
		}
	}

	allow := map[string]bool{}
	for _, p := range strings.Split(*initPkgs, ",") {
		if p != "" {
			allow[p] = true
		}
	}
	allowInit := func(path string) bool {
		if strings.HasSuffix(path, "/verifrt") {
			return false
		}
		return strings.HasPrefix(path, "verifws/") || strings.HasPrefix(path, "github.com/goghcrow/go-co") || allow[path] || path == "errors" || path == "unicode/utf8"
	}

	lim := Limits{Budget: *budget, MaxPaths: *maxPaths, Wall: *wall, Samples: *samples}
	output.Limits = map[string]any{"instructions_per_path": *budget, "paths_per_driver": *maxPaths, "wall_per_driver_s": wall.Seconds()}
	results := make([]DriverResult, len(specs))
	var mu sync.Mutex
	next := 0
	var wg sync.WaitGroup
	rtErr := newRtErrType()
	nw := *jobs
	if nw > len(specs) {
		nw = len(specs)
	}
	for wi := 0; wi < nw; wi++ {
		wg.Add(1)
		go func(wi int) {
			defer wg.Done()
			var rec *os.File
			if *record != "" {
				rec, _ = os.Create(fmt.Sprintf("%s.%d", *record, wi))
				defer rec.Close()
			}
			var recW interface{ Write([]byte) (int, error) }
			if rec != nil {
				recW = rec
			}
			sol, err := NewSolver(*solver, recW)
			if err != nil {
				fatal("solver: " + err.Error())
			}
			sol.QueryTimeout = *qtimeout
			m := &Machine{prog: prog, tt: NewTermTable(), sol: sol, budget: lim.Budget,
				genCache: map[*ssa.Function]bool{}, allowInit: allowInit, funcsUsed: map[*ssa.Function]int{}, rtErrType: rtErr}
			w := &Worker{m: m, lim: lim}
			defer func() { m.sol.Close() }()
			for {
				mu.Lock()
				i := next
				next++
				mu.Unlock()
				if i >= len(specs) {
					break
				}
				results[i] = w.runDriver(specs[i])
			}
			mu.Lock()
			for k, v := range m.funcsUsed {
				output.FuncsEncoded[k.String()] += v
			}
			output.TotalQueries += m.sol.Queries
			output.TotalSolverS += m.sol.Time.Seconds()
			output.SolverTimeouts += m.sol.Timeouts
			mu.Unlock()
		}(wi)
	}
	wg.Wait()
	output.Drivers = results
	output.WallS = time.Since(t0).Seconds()
	writeOut(*out, &output)
}

func writeOut(path string, o *Output) {
	b, _ := json.MarshalIndent(o, "", " ")
	if path == "" {
		os.Stdout.Write(b)
		return
	}
	if err := os.WriteFile(path, b, 0o644); err != nil {
		fatal(err.Error())
	}
}

func fatal(msg string) {
	fmt.Fprintln(os.Stderr, "gocosym:", msg)
	os.Exit(2)
}
