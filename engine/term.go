package main

import (
	"fmt"
	"math/bits"
	"strings"
)

// Term is a hash-consed SMT term: a bit-vector of width W (W>0) or a Bool (W==0).
type Term struct {
	id    int
	op    string // "const", "var", or an SMT-LIB operator
	args  []*Term
	W     int
	cval  uint64 // for const (bools: 0/1)
	name  string // for var
	p1    int    // extract hi / extend amount
	p2    int    // extract lo
	depth int
}

func (t *Term) IsConst() bool { return t.op == "const" }

type TermTable struct {
	tab  map[string]*Term
	next int
	vars []*Term
}

func NewTermTable() *TermTable { return &TermTable{tab: map[string]*Term{}} }

func mask(w int) uint64 {
	if w >= 64 {
		return ^uint64(0)
	}
	return (uint64(1) << uint(w)) - 1
}

func (tt *TermTable) intern(key string, mk func() *Term) *Term {
	if t, ok := tt.tab[key]; ok {
		return t
	}
	t := mk()
	t.id = tt.next
	tt.next++
	tt.tab[key] = t
	return t
}

func (tt *TermTable) BV(w int, v uint64) *Term {
	v &= mask(w)
	key := fmt.Sprintf("c%d:%d", w, v)
	return tt.intern(key, func() *Term { return &Term{op: "const", W: w, cval: v} })
}

func (tt *TermTable) Bool(b bool) *Term {
	var v uint64
	if b {
		v = 1
	}
	key := fmt.Sprintf("c0:%d", v)
	return tt.intern(key, func() *Term { return &Term{op: "const", W: 0, cval: v} })
}

func (tt *TermTable) Var(name string, w int) *Term {
	key := fmt.Sprintf("v%d:%s", w, name)
	return tt.intern(key, func() *Term {
		t := &Term{op: "var", W: w, name: name}
		tt.vars = append(tt.vars, t)
		return t
	})
}

func (tt *TermTable) mk(op string, w int, p1, p2 int, args ...*Term) *Term {
	var sb strings.Builder
	sb.WriteString(op)
	fmt.Fprintf(&sb, "/%d/%d/%d", w, p1, p2)
	d := 0
	for _, a := range args {
		fmt.Fprintf(&sb, ",%d", a.id)
		if a.depth > d {
			d = a.depth
		}
	}
	return tt.intern(sb.String(), func() *Term {
		return &Term{op: op, W: w, args: args, p1: p1, p2: p2, depth: d + 1}
	})
}

func sext(v uint64, w int) int64 {
	if w >= 64 {
		return int64(v)
	}
	sh := uint(64 - w)
	return int64(v<<sh) >> sh
}

// BinBV builds a bit-vector binary operation with constant folding.
func (tt *TermTable) BinBV(op string, a, b *Term) *Term {
	if a.W != b.W {
		panic(fmt.Sprintf("BinBV %s width mismatch %d %d", op, a.W, b.W))
	}
	w := a.W
	if a.IsConst() && b.IsConst() {
		x, y := a.cval, b.cval
		var r uint64
		switch op {
		case "bvadd":
			r = x + y
		case "bvsub":
			r = x - y
		case "bvmul":
			r = x * y
		case "bvand":
			r = x & y
		case "bvor":
			r = x | y
		case "bvxor":
			r = x ^ y
		case "bvudiv":
			if y == 0 {
				r = mask(w)
			} else {
				r = x / y
			}
		case "bvurem":
			if y == 0 {
				r = x
			} else {
				r = x % y
			}
		case "bvsdiv":
			sx, sy := sext(x, w), sext(y, w)
			if sy == 0 {
				if sx < 0 {
					r = 1
				} else {
					r = mask(w)
				}
			} else if sy == -1 {
				r = uint64(-sx)
			} else {
				r = uint64(sx / sy)
			}
		case "bvsrem":
			sx, sy := sext(x, w), sext(y, w)
			if sy == 0 {
				r = x
			} else if sy == -1 {
				r = 0
			} else {
				r = uint64(sx % sy)
			}
		case "bvshl":
			if y >= uint64(w) {
				r = 0
			} else {
				r = x << y
			}
		case "bvlshr":
			if y >= uint64(w) {
				r = 0
			} else {
				r = x >> y
			}
		case "bvashr":
			sx := sext(x, w)
			if y >= uint64(w) {
				if sx < 0 {
					r = mask(w)
				} else {
					r = 0
				}
			} else {
				r = uint64(sx >> y)
			}
		default:
			panic("BinBV: unknown op " + op)
		}
		return tt.BV(w, r)
	}
	// light simplifications
	switch op {
	case "bvadd":
		if a.IsConst() && a.cval == 0 {
			return b
		}
		if b.IsConst() && b.cval == 0 {
			return a
		}
		if a.IsConst() { // canonical: constant on the right
			a, b = b, a
		}
		// (x + c1) + c2 => x + (c1+c2)
		if b.IsConst() && a.op == "bvadd" && a.args[1].IsConst() {
			return tt.BinBV("bvadd", a.args[0], tt.BV(w, a.args[1].cval+b.cval))
		}
	case "bvsub":
		if b.IsConst() && b.cval == 0 {
			return a
		}
		if a == b {
			return tt.BV(w, 0)
		}
		if b.IsConst() {
			return tt.BinBV("bvadd", a, tt.BV(w, -b.cval))
		}
	case "bvmul":
		if a.IsConst() {
			a, b = b, a
		}
		if b.IsConst() && b.cval == 1 {
			return a
		}
		if b.IsConst() && b.cval == 0 {
			return b
		}
	case "bvand":
		if a == b {
			return a
		}
		if b.IsConst() && b.cval == 0 {
			return b
		}
		if a.IsConst() && a.cval == 0 {
			return a
		}
		if b.IsConst() && b.cval == mask(w) {
			return a
		}
		if a.IsConst() && a.cval == mask(w) {
			return b
		}
	case "bvor":
		if a == b {
			return a
		}
		if b.IsConst() && b.cval == 0 {
			return a
		}
		if a.IsConst() && a.cval == 0 {
			return b
		}
	case "bvxor":
		if a == b {
			return tt.BV(w, 0)
		}
	case "bvshl", "bvlshr", "bvashr":
		if b.IsConst() && b.cval == 0 {
			return a
		}
	}
	return tt.mk(op, w, 0, 0, a, b)
}

func (tt *TermTable) Neg(a *Term) *Term {
	if a.IsConst() {
		return tt.BV(a.W, -a.cval)
	}
	return tt.mk("bvneg", a.W, 0, 0, a)
}

func (tt *TermTable) BVNot(a *Term) *Term {
	if a.IsConst() {
		return tt.BV(a.W, ^a.cval)
	}
	return tt.mk("bvnot", a.W, 0, 0, a)
}

// Cmp builds a comparison (result Bool). op: "=", bvslt, bvsle, bvsgt, bvsge, bvult, bvule, bvugt, bvuge.
func (tt *TermTable) Cmp(op string, a, b *Term) *Term {
	if a.W != b.W {
		panic(fmt.Sprintf("Cmp %s width mismatch %d %d", op, a.W, b.W))
	}
	if a.IsConst() && b.IsConst() {
		x, y := a.cval, b.cval
		sx, sy := sext(x, a.W), sext(y, a.W)
		var r bool
		switch op {
		case "=":
			r = x == y
		case "bvslt":
			r = sx < sy
		case "bvsle":
			r = sx <= sy
		case "bvsgt":
			r = sx > sy
		case "bvsge":
			r = sx >= sy
		case "bvult":
			r = x < y
		case "bvule":
			r = x <= y
		case "bvugt":
			r = x > y
		case "bvuge":
			r = x >= y
		default:
			panic("Cmp: unknown op " + op)
		}
		return tt.Bool(r)
	}
	if a == b {
		switch op {
		case "=", "bvsle", "bvsge", "bvule", "bvuge":
			return tt.Bool(true)
		default:
			return tt.Bool(false)
		}
	}
	if op == "=" {
		if a.W == 0 {
			// boolean equality with a constant
			if a.IsConst() {
				a, b = b, a
			}
			if b.IsConst() {
				if b.cval == 1 {
					return a
				}
				return tt.Not(a)
			}
		}
		if a.id > b.id {
			a, b = b, a
		}
		// ite(c, k1, k2) = k  with constants
		if b.IsConst() && a.op == "ite" && a.args[1].IsConst() && a.args[2].IsConst() {
			t1 := a.args[1].cval == b.cval
			t2 := a.args[2].cval == b.cval
			switch {
			case t1 && t2:
				return tt.Bool(true)
			case t1:
				return a.args[0]
			case t2:
				return tt.Not(a.args[0])
			default:
				return tt.Bool(false)
			}
		}
		if a.IsConst() && b.op == "ite" && b.args[1].IsConst() && b.args[2].IsConst() {
			return tt.Cmp("=", b, a)
		}
	}
	return tt.mk(op, 0, 0, 0, a, b)
}

func (tt *TermTable) Not(a *Term) *Term {
	if a.W != 0 {
		panic("Not on non-bool")
	}
	if a.IsConst() {
		return tt.Bool(a.cval == 0)
	}
	if a.op == "not" {
		return a.args[0]
	}
	return tt.mk("not", 0, 0, 0, a)
}

func (tt *TermTable) And(a, b *Term) *Term {
	if a.IsConst() {
		if a.cval == 1 {
			return b
		}
		return a
	}
	if b.IsConst() {
		if b.cval == 1 {
			return a
		}
		return b
	}
	if a == b {
		return a
	}
	return tt.mk("and", 0, 0, 0, a, b)
}

func (tt *TermTable) Or(a, b *Term) *Term {
	if a.IsConst() {
		if a.cval == 0 {
			return b
		}
		return a
	}
	if b.IsConst() {
		if b.cval == 0 {
			return a
		}
		return b
	}
	if a == b {
		return a
	}
	return tt.mk("or", 0, 0, 0, a, b)
}

func (tt *TermTable) Ite(c, a, b *Term) *Term {
	if c.IsConst() {
		if c.cval == 1 {
			return a
		}
		return b
	}
	if a == b {
		return a
	}
	if a.W != b.W {
		panic("Ite width mismatch")
	}
	if a.W == 0 && a.IsConst() && b.IsConst() {
		if a.cval == 1 {
			return c
		}
		return tt.Not(c)
	}
	return tt.mk("ite", a.W, 0, 0, c, a, b)
}

// Resize converts a bit-vector to width w (truncate, or sign/zero extend by signedness of the source).
func (tt *TermTable) Resize(a *Term, w int, signed bool) *Term {
	if a.W == w {
		return a
	}
	if a.IsConst() {
		if signed {
			return tt.BV(w, uint64(sext(a.cval, a.W)))
		}
		return tt.BV(w, a.cval)
	}
	if w < a.W {
		return tt.mk("extract", w, w-1, 0, a)
	}
	if signed {
		return tt.mk("sign_extend", w, w-a.W, 0, a)
	}
	return tt.mk("zero_extend", w, w-a.W, 0, a)
}

func sortOf(w int) string {
	if w == 0 {
		return "Bool"
	}
	return fmt.Sprintf("(_ BitVec %d)", w)
}

func constText(t *Term) string {
	if t.W == 0 {
		if t.cval == 1 {
			return "true"
		}
		return "false"
	}
	if t.W%4 == 0 {
		return fmt.Sprintf("#x%0*x", t.W/4, t.cval)
	}
	return fmt.Sprintf("(_ bv%d %d)", t.cval, t.W)
}

// ref is how a term is referred to inside solver input: constants and variables inline,
// composite terms by their defined name.
func (t *Term) ref() string {
	switch t.op {
	case "const":
		return constText(t)
	case "var":
		return t.name
	}
	return fmt.Sprintf("t%d", t.id)
}

// body is the SMT-LIB text of a composite term with its arguments referenced by name.
func (t *Term) body() string {
	var sb strings.Builder
	switch t.op {
	case "extract":
		fmt.Fprintf(&sb, "((_ extract %d %d) %s)", t.p1, t.p2, t.args[0].ref())
		return sb.String()
	case "sign_extend", "zero_extend":
		fmt.Fprintf(&sb, "((_ %s %d) %s)", t.op, t.p1, t.args[0].ref())
		return sb.String()
	}
	sb.WriteString("(")
	sb.WriteString(t.op)
	for _, a := range t.args {
		sb.WriteString(" ")
		sb.WriteString(a.ref())
	}
	sb.WriteString(")")
	return sb.String()
}

// String renders the term fully inlined (debugging / evidence samples; may be large).
func (t *Term) String() string {
	switch t.op {
	case "const":
		if t.W == 0 {
			return constText(t)
		}
		return fmt.Sprintf("%d", sext(t.cval, t.W))
	case "var":
		return t.name
	}
	if t.depth > 6 {
		return fmt.Sprintf("t%d<%s…>", t.id, t.op)
	}
	var sb strings.Builder
	sb.WriteString("(")
	sb.WriteString(t.op)
	for _, a := range t.args {
		sb.WriteString(" ")
		sb.WriteString(a.String())
	}
	sb.WriteString(")")
	return sb.String()
}

// Eval evaluates a term under an assignment of the variables (used to validate models and to
// render concrete logs for replay).
func (t *Term) Eval(env map[string]uint64, memo map[*Term]uint64) uint64 {
	if v, ok := memo[t]; ok {
		return v
	}
	var r uint64
	switch t.op {
	case "const":
		r = t.cval
	case "var":
		r = env[t.name] & mask(max1(t.W))
	default:
		a := make([]uint64, len(t.args))
		for i, x := range t.args {
			a[i] = x.Eval(env, memo)
		}
		w := t.W
		aw := 0
		if len(t.args) > 0 {
			aw = t.args[0].W
		}
		b2u := func(b bool) uint64 {
			if b {
				return 1
			}
			return 0
		}
		switch t.op {
		case "not":
			r = 1 - a[0]
		case "and":
			r = a[0] & a[1]
		case "or":
			r = a[0] | a[1]
		case "ite":
			if a[0] == 1 {
				r = a[1]
			} else {
				r = a[2]
			}
		case "=":
			r = b2u(a[0] == a[1])
		case "bvslt":
			r = b2u(sext(a[0], aw) < sext(a[1], aw))
		case "bvsle":
			r = b2u(sext(a[0], aw) <= sext(a[1], aw))
		case "bvsgt":
			r = b2u(sext(a[0], aw) > sext(a[1], aw))
		case "bvsge":
			r = b2u(sext(a[0], aw) >= sext(a[1], aw))
		case "bvult":
			r = b2u(a[0] < a[1])
		case "bvule":
			r = b2u(a[0] <= a[1])
		case "bvugt":
			r = b2u(a[0] > a[1])
		case "bvuge":
			r = b2u(a[0] >= a[1])
		case "bvneg":
			r = -a[0]
		case "bvnot":
			r = ^a[0]
		case "extract":
			r = a[0] >> uint(t.p2)
		case "zero_extend":
			r = a[0]
		case "sign_extend":
			r = uint64(sext(a[0], aw))
		default:
			// binary bv op: reuse folding on a scratch table-free path
			r = foldBin(t.op, w, a[0], a[1])
		}
		if w > 0 {
			r &= mask(w)
		}
	}
	memo[t] = r
	return r
}

func max1(w int) int {
	if w == 0 {
		return 1
	}
	return w
}

func foldBin(op string, w int, x, y uint64) uint64 {
	tt := NewTermTable()
	return tt.BinBV(op, tt.BV(w, x), tt.BV(w, y)).cval
}

var _ = bits.Len
