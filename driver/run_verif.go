//go:build verif

package main

import "github.com/goghcrow/go-co/rewriter"

func run(mode, src, dst string) {
	switch mode {
	case "compile":
		compileFull(src, dst)
	case "stage1":
		rewriter.VerifRewriteStage(src, dst)
	default:
		panic("unknown mode " + mode)
	}
}
