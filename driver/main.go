// Command verifdriver runs the real go-co compiler (built from /repo's working tree) on
// package directories and reports, per directory, whether it produced output or panicked.
//
//	verifdriver compile <srcDir> <dstDir> [<srcDir> <dstDir> ...]
//
// One JSON line per pair is printed on stdout: {"src":..,"dst":..,"ok":bool,"panic":".."}.
package main

import (
	"encoding/json"
	"fmt"
	"io"
	"log"
	"os"

	"github.com/goghcrow/go-co/rewriter"
)

type result struct {
	Src   string `json:"src"`
	Dst   string `json:"dst"`
	OK    bool   `json:"ok"`
	Panic string `json:"panic,omitempty"`
}

func compileOne(mode, src, dst string) (res result) {
	res = result{Src: src, Dst: dst}
	defer func() {
		if r := recover(); r != nil {
			res.OK = false
			res.Panic = fmt.Sprint(r)
		}
	}()
	run(mode, src, dst)
	res.OK = true
	return
}

func main() {
	log.SetOutput(io.Discard)
	if len(os.Args) < 4 || (len(os.Args)-2)%2 != 0 {
		fmt.Fprintln(os.Stderr, "usage: verifdriver compile|stage1 src dst [src dst ...]")
		os.Exit(2)
	}
	mode := os.Args[1]
	enc := json.NewEncoder(os.Stdout)
	for i := 2; i+1 < len(os.Args); i += 2 {
		// the rewriter re-enables logging; silence it again for each pair
		r := compileOne(mode, os.Args[i], os.Args[i+1])
		log.SetOutput(io.Discard)
		enc.Encode(r)
	}
}

func compileFull(src, dst string) { rewriter.Compile(src, dst) }
