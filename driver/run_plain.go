//go:build !verif

package main

func run(mode, src, dst string) {
	if mode != "compile" {
		panic("mode " + mode + " needs -tags verif")
	}
	compileFull(src, dst)
}
